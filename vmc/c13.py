"""C13 - metadata only refines column attribution.

C02-generator cases over schema-qualified tables x every assignment relation -> {unknown, known-exact, known-superset,
known-overlap, known-lacking} (full product, filtered for well-formedness) x target in {unknown, known} x provider kind
in {dict-backed, SQLAlchemy on in-memory sqlite}.
Oracles: (i) table-level observation with provider == without; (ii) refsem.columns with the knowledge map;
(iii) a provider that knows nothing about the statement's tables gives the no-metadata observation.
"""
from __future__ import annotations

import itertools
import json

from vmc import common, observe, refsem, sqlgen
from vmc.c01 import _write_pins, enumerate_cases
from vmc.c02 import classify as classify_c02
from vmc.common import HarnessError, Report, pmap

SCHEMA = "main"  # the schema every in-memory sqlite database has


def referenced(st):
    """per base table: columns referenced for sure / columns it is a candidate for (from the no-metadata reference)"""
    sure, maybe, star = {}, {}, set()
    for src, _ in refsem.columns(st, {}, SCHEMA):
        if src.startswith("?"):
            name, cands = src[1:].split("[")
            for c in cands.rstrip("]").split("|"):
                if "." in c:
                    maybe.setdefault(c, set()).add(name)
        else:
            t, c = src.rsplit(".", 1)
            if c == "*":
                star.add(t)
            else:
                sure.setdefault(t, set()).add(c)
    return sure, maybe, star


def n_outputs(st, K):
    if st["kind"] not in ("insert", "ctas", "view", "select_into"):
        return None
    cols = refsem.eval_query(st["q"], {}, K, SCHEMA)
    if any(n == "*" for n, _ in cols):
        return None
    return len(cols)


def knowledge_assignments(st, tier, ndev=0):
    """all well-formed knowledge maps for the statement"""
    bases = sorted({refsem.fq(t, SCHEMA) for t in sqlgen.base_tables(st)})
    if len(bases) > 3:
        return []
    sure, maybe, star = referenced(st)
    all_maybe = set().union(*maybe.values()) if maybe else set()
    opts = {}
    for b in bases:
        s, m = sorted(sure.get(b, ())), sorted(maybe.get(b, ()))
        lean = ndev >= (2 if tier == "quick" else 3)  # outermost ball: unknown / exact / lacking only
        o = [("U", None), ("E", s + m + ["id"])] + ([] if lean else [("S", s + m + ["id", "zz"])])
        if m and not s:
            o.append(("L", ["zz"]))  # known, but lacking the ambiguous column
        if not lean and (tier != "quick" or len(bases) <= 2):
            other = sorted(all_maybe - set(m))
            if other:
                o.append(("O", s + m + other + ["id"]))  # shares names with other known tables
        opts[b] = o
    out = []
    for combo in itertools.product(*[opts[b] for b in bases]):
        K = {b: cols for b, (tag, cols) in zip(bases, combo) if cols is not None}
        tags = "".join(tag for tag, _ in combo)
        # well-formed: every ambiguous column is listed by some known candidate or has an unknown candidate
        ok = True
        for src, _ in refsem.columns(st, {}, SCHEMA):
            if src.startswith("?"):
                name, cands = src[1:].split("[")
                cs = [c for c in cands.rstrip("]").split("|")]
                if all(c in K and name not in K[c] for c in cs if "." in c) and all("." in c for c in cs):
                    ok = False
        if not ok:
            continue
        # a star next to a column list / known target needs a defined arity: every starred table known
        n = n_outputs(st, K)
        tgt = refsem.fq(st["target"], SCHEMA) if st.get("target") else None
        if st.get("collist") and n is not None and n != len(st["collist"]):
            continue
        out.append((tags + "-tU", K))
        if tgt and st["kind"] in ("insert", "ctas", "view") and n is not None:
            # known target: names the positions of an INSERT without column list - and of nothing else (CTAS / CREATE VIEW
            # define their own columns)
            Kt = dict(K)
            Kt[tgt] = [f"m{i}" for i in range(n)]
            out.append((tags + "-tK", Kt))
            if st.get("collist"):
                Kt2 = dict(K)
                Kt2[tgt] = list(reversed(st["collist"])) + ["extra"]  # column list is a subset, in another order
                out.append((tags + "-tKsuper", Kt2))
    return out


def make_provider(kind, K):
    if kind == "dummy":
        from sqllineage.core.metadata.dummy import DummyMetaDataProvider

        return DummyMetaDataProvider({k: list(v) for k, v in K.items()})
    from sqlalchemy import Column as SAColumn
    from sqlalchemy import Integer, MetaData
    from sqlalchemy import Table as SATable

    from sqllineage.core.metadata.sqlalchemy import SQLAlchemyMetaDataProvider

    p = SQLAlchemyMetaDataProvider("sqlite:///:memory:", {"poolclass": __import__("sqlalchemy.pool", fromlist=["StaticPool"]).StaticPool})
    md = MetaData()
    from sqlalchemy import text

    for schema in sorted({full.split(".")[0] for full in K} - {"main", "temp"}):
        with p.engine.connect() as conn:
            conn.execute(text(f"ATTACH DATABASE ':memory:' AS '{schema}'"))
    for full, cols in K.items():
        schema, table = full.split(".")
        SATable(table, md, *[SAColumn(c, Integer) for c in cols], schema=schema)
    md.create_all(bind=p.engine)
    return p


def _eval(task):
    st, tags, K, kind = task[:4]
    check_unrelated = task[4] if len(task) > 4 else True
    sql = sqlgen.render(st, sqlgen.R(qualify=SCHEMA))
    base = observe.observe(sql, "ansi", level="columns")
    if "exception" in base:
        return {"sql": sql, "bad": "exception-without-metadata", "obs": base}
    prov = make_provider(kind, K)
    obs = observe.observe(sql, "ansi", provider=prov, level="columns")
    if "exception" in obs:
        return {"sql": sql, "bad": "exception", "obs": obs}
    bad = []
    if (obs["source"], obs["target"], obs["intermediate"]) != (base["source"], base["target"], base["intermediate"]):
        bad.append("table-lineage-changed-by-metadata")
    exp = refsem.columns(st, K, SCHEMA)
    got = {tuple(p) for p in obs["pairs"]}
    if got != exp:
        bad.append("columns")
    # (iii) a provider that knows only unrelated tables == no metadata
    prov0 = make_provider(kind, {f"{SCHEMA}.unrelated": ["id", "c1", "c2"]}) if check_unrelated else None
    obs0 = observe.observe(sql, "ansi", provider=prov0, level="columns") if check_unrelated else base
    if {k: obs0.get(k) for k in ("source", "target", "pairs")} != {k: base.get(k) for k in ("source", "target", "pairs")}:
        bad.append("unrelated-metadata-changes-answer")
    if not bad:
        return {"sql": sql, "ok": True}
    base_ok = {tuple(p) for p in base["pairs"]} == refsem.columns(st, {}, SCHEMA)
    return {
        "sql": sql, "bad": "+".join(bad), "obs": {"pairs": sorted(got), "source": obs["source"], "target": obs["target"]},
        "expected": sorted(exp), "delta": {"missing": sorted(exp - got), "extra": sorted(got - exp)}, "base_ok": base_ok,
        "base_pairs": base["pairs"],
    }


# ------------------------------------------------------------------------------------------------
# (iv) two multi-relation scopes in one statement: knowledge about one scope's tables must not leak into the other
# ------------------------------------------------------------------------------------------------
def two_scope_cases():
    T = sqlgen.T
    base = lambda n: {"k": "base", "t": T(n, None), "alias": None, "as": False}  # noqa: E731
    sel = lambda items, rels: {"items": items, "from": {"shape": "join" if len(rels) == 2 else "join3", "rels": rels}, "where": None, "tail": None}  # noqa: E731
    q1 = lambda *ss: {"ctes": [], "branches": list(ss), "ops": ["UNION ALL"] * (len(ss) - 1)}  # noqa: E731
    col = lambda n, a=None: {"e": ["col", None, n], "alias": a}  # noqa: E731
    out = []
    for second in (("t3", "t4"), ("t1", "t3")):
        for ca in ("c1", "c2"):
            for cb in ("c1", "c2"):
                inner = sel([col(cb)], [base(second[0]), base(second[1])])
                outer_rels = [base("t1"), base("t2")]
                shapes = {
                    "union": q1(sel([col(ca)], outer_rels), inner),
                    "scalar": q1(sel([col(ca), {"e": ["subq", q1(inner)], "alias": "x1"}], outer_rels)),
                    "exists": q1({**sel([col(ca)], outer_rels), "where": ["exists", q1(inner)]}),
                    "cte": {"ctes": [{"name": "cte1", "q": q1(inner)}], "ops": ["UNION ALL"],
                            "branches": [sel([col(ca)], outer_rels), {"items": [col(cb)], "from": {"shape": "one", "rels": [{"k": "cte", "name": "cte1", "alias": None}]}, "where": None, "tail": None}]},
                }
                for name, q in shapes.items():
                    st = {"kind": "insert", "target": T("tgt"), "collist": None, "q": q}
                    out.append((f"{name}/{'+'.join(second)}/{ca},{cb}", st))
    # one scope, tables of the same bare name in different schemas (lookups must be keyed by schema AND name)
    based = lambda n, sch: {"k": "base", "t": T(n, sch), "alias": None, "as": False}  # noqa: E731
    for rels in ([base("t1"), based("t1", "s1")], [based("t1", "s1"), base("t1")], [base("t1"), based("t1", "s1"), based("t1", "s2")]):
        for ca in ("c1", "c2"):
            label = "+".join((r["t"]["s"] or "main") + ".t1" for r in rels)
            out.append((f"samename/{label}/{ca},-", {"kind": "insert", "target": T("tgt"), "collist": None, "q": q1(sel([col(ca)], rels))}))
            out.append((f"samename-star/{label}/{ca},-", {"kind": "insert", "target": T("tgt"), "collist": None,
                                                         "q": q1(sel([{"e": ["star", None], "alias": None}, col(ca, "x1")], rels))}))
    return out


def two_scope_knowledge(st):
    bases = sorted({refsem.fq(t, SCHEMA) for t in sqlgen.base_tables(st)})
    opts = [None, ["c1", "id"], ["c2", "id"], ["zz"]]
    for combo in itertools.product(opts, repeat=len(bases)):
        K = {b: c for b, c in zip(bases, combo) if c is not None}
        if not K:
            continue
        # well-formed: every ambiguous column has a candidate that is unknown or lists it
        ok = True
        for src, _ in refsem.columns(st, {}, SCHEMA):
            if src.startswith("?"):
                name, cands = src[1:].split("[")
                cs = [c for c in cands.rstrip("]").split("|") if "." in c]
                if cs and all(c in K and name not in K[c] for c in cs):
                    ok = False
        if ok:
            yield "".join("U" if c is None else c[0][-1] if c[0] != "zz" else "L" for c in combo), K


# ------------------------------------------------------------------------------------------------
# (v) one provider object over a history of runs: every run answers as with a fresh provider
# ------------------------------------------------------------------------------------------------
RUNS = [
    "CREATE TABLE main.x AS SELECT c1, c2 FROM main.t1;\nINSERT INTO main.tgt SELECT * FROM main.x",
    "INSERT INTO main.tgt SELECT * FROM main.x",
    "INSERT INTO main.tgt SELECT c1 FROM main.x JOIN main.t2 ON 1 = 1",
    "INSERT INTO main.t1 SELECT c9 FROM main.t2;\nINSERT INTO main.tgt SELECT * FROM main.t1",
    "INSERT INTO main.tgt SELECT * FROM main.t1",
    "CREATE VIEW main.t2 AS SELECT c1 AS v1 FROM main.t1;\nINSERT INTO main.tgt SELECT v1, c2 FROM main.t2 JOIN main.x ON 1 = 1",
    "INSERT INTO main.tgt SELECT c2 FROM main.t2 JOIN main.x ON 1 = 1",
]
RUNS += [
    # runs that fail half-way: what they registered must not survive them
    "CREATE TABLE main.x AS SELECT c7, c8 FROM main.t1;\nSELECT FROM WHERE",
    "CREATE TABLE main.x AS SELECT c9 FROM main.t1;\nEXPLAIN SELECT 1",
]
RUN_KNOWLEDGE = [
    {"main.t1": ["c1", "c2", "id"]},
    {"main.t1": ["c1", "c2", "id"], "main.t2": ["c2", "id"]},
    {"main.x": ["k1", "k2"], "main.t2": ["c1", "id"]},
    {"main.unrelated": ["id"]},
]


# ------------------------------------------------------------------------------------------------
# (vi) an explicit column list always wins - in every syntactic position a dialect allows it
# ------------------------------------------------------------------------------------------------
COLLIST_FORMS = [
    ("ansi", "INSERT INTO main.tgt (b, c) SELECT c1, c2 FROM main.t1"),
    ("ansi", "INSERT INTO main.tgt (b, c) (SELECT c1, c2 FROM main.t1)"),
    ("ansi", "INSERT INTO main.tgt (b, c) WITH q AS (SELECT c1, c2 FROM main.t1) SELECT c1, c2 FROM q"),
    ("ansi", "INSERT INTO main.tgt (b, c) SELECT c1, c2 FROM main.t1 UNION ALL SELECT c3, c4 FROM main.t2"),
    ("postgres", "INSERT INTO main.tgt AS tt (b, c) SELECT c1, c2 FROM main.t1"),
    ("postgres", "INSERT INTO main.tgt (b, c) SELECT c1, c2 FROM main.t1 ON CONFLICT DO NOTHING"),
    ("postgres", "INSERT INTO main.tgt (b, c) SELECT c1, c2 FROM main.t1 RETURNING b"),
    ("tsql", "INSERT INTO main.tgt WITH (TABLOCK) (b, c) SELECT c1, c2 FROM main.t1"),
    ("tsql", "INSERT main.tgt (b, c) SELECT c1, c2 FROM main.t1"),
    ("sparksql", "INSERT INTO TABLE main.tgt (b, c) SELECT c1, c2 FROM main.t1"),
    ("sparksql", "INSERT OVERWRITE TABLE main.tgt (b, c) SELECT c1, c2 FROM main.t1"),
    ("sparksql", "INSERT INTO main.tgt PARTITION (dt = 1) (b, c) SELECT c1, c2 FROM main.t1"),
    ("hive", "INSERT INTO TABLE main.tgt PARTITION (dt = 1) (b, c) SELECT c1, c2 FROM main.t1"),
    ("mysql", "INSERT IGNORE INTO main.tgt (b, c) SELECT c1, c2 FROM main.t1"),
    ("mysql", "INSERT INTO main.tgt (b, c) SELECT c1, c2 FROM main.t1 ON DUPLICATE KEY UPDATE b = 1"),
    ("bigquery", "INSERT main.tgt (b, c) SELECT c1, c2 FROM main.t1"),
    ("snowflake", "INSERT OVERWRITE INTO main.tgt (b, c) SELECT c1, c2 FROM main.t1"),
    ("oracle", "INSERT INTO main.tgt tt (b, c) SELECT c1, c2 FROM main.t1"),
    ("redshift", "INSERT INTO main.tgt (b, c) SELECT c1, c2 FROM main.t1"),
    ("duckdb", "INSERT OR REPLACE INTO main.tgt (b, c) SELECT c1, c2 FROM main.t1"),
    ("sqlite", "INSERT OR IGNORE INTO main.tgt (b, c) SELECT c1, c2 FROM main.t1"),
    ("trino", "INSERT INTO main.tgt (b, c) SELECT c1, c2 FROM main.t1"),
    ("clickhouse", "INSERT INTO main.tgt (b, c) SELECT c1, c2 FROM main.t1"),
    ("teradata", "INSERT INTO main.tgt (b, c) SELECT c1, c2 FROM main.t1"),
    ("non-validating", "INSERT INTO main.tgt (b, c) SELECT c1, c2 FROM main.t1"),
]
COLLIST_KNOWLEDGE = [
    {"main.tgt": ["x", "y"]},
    {"main.tgt": ["c", "b", "extra"]},
    {"main.tgt": ["x", "y", "z"], "main.t1": ["c1", "c2", "id"]},
]


def _collist(task):
    dialect, sql, K, kind = task
    base = observe.observe(sql, dialect, level="columns")
    if "exception" in base:
        return {"skip": "rejected"}
    if {t.rsplit(".", 1)[1] for _, t in base["pairs"]} != {"b", "c"}:
        return {"skip": "list-not-recognised-without-metadata"}  # a single-statement matter (C02/C09), nothing metadata does
    obs = observe.observe(sql, dialect, provider=make_provider(kind, K), level="columns")
    if obs == base:
        return {"ok": True}
    return {"ok": False, "with_metadata": obs, "without": base}


def _history(task):
    kind, K, hist = task
    prov = make_provider(kind, K)
    bad = []
    for i, r in enumerate(hist):
        got = observe.observe(RUNS[r], "ansi", provider=prov, level="columns")
        want = observe.observe(RUNS[r], "ansi", provider=make_provider(kind, K), level="columns")
        if got != want:
            bad.append({"step": i, "run": RUNS[r], "reused_provider": got, "fresh_provider": want})
            break
    return {"ok": not bad, "bad": bad}


def classify(st, tags, K, res):
    if res["bad"] != "columns":
        return None
    d = res["delta"]
    tgt = refsem.fq(st["target"], SCHEMA) if st.get("target") else None
    if tags.startswith("2s:") and len(set(tags.split(":")[1].split("/")[2].split(","))) == 1:
        return "F-C04-unresolved-columns-of-equal-name-merge"  # both scopes read an unqualified column of the same name
    if not res["base_ok"]:
        fid = classify_c02(st, "ansi", {"bad": "columns", "delta": d, "obs": res["obs"]})
        return fid or "F-C13-inherits-single-statement-finding"
    if st.get("collist") and tgt in K:
        return "F-C13-column-list-overridden-by-target-metadata"
    if d["extra"] and all(e[0] == "<none>" for e in d["extra"]) and not d["missing"] and tgt in K:
        return "F-C13-unfed-target-columns-as-one-node-paths"
    f = sqlgen.features(st)
    if "item:star" in f:
        known = [b for b in {refsem.fq(t, SCHEMA) for t in sqlgen.base_tables(st)} if b in K]
        cols = [c for b in known for c in K[b]]
        if len(cols) != len(set(cols)):
            return "F-C11-star-over-tables-sharing-a-column-name"
        if tgt in K:
            return "F-C13-star-not-expanded-into-known-target"
        return "F-C13-wildcard-lost-under-partial-metadata"
    return None


def run(tier: str, opts: dict) -> int:
    rep = Report("C13", tier, "exploration")
    D = int(opts.get("D", 2 if tier == "quick" else 3))
    cases, n_exec = enumerate_cases(sqlgen.COLUMN_PROFILE, D, 2)
    tasks = []
    for sql, (st, trace, ndev) in cases:
        f = sqlgen.features(st)
        if st["kind"] in ("select_into",) or "item:pgcast" in f:
            continue
        for tags, K in knowledge_assignments(st, tier, ndev):
            if not K:
                continue
            if tier != "quick" and ndev == 3 and len(K) > 2:
                continue
            kinds = ["dummy", "sqlalchemy"] if (ndev <= (1 if tier == "quick" else 2)) else ["dummy"]
            for kind in kinds:
                tasks.append((st, tags, K, kind, ndev <= (1 if tier == "quick" else 2)))
    # (iv) two-scope statements x knowledge product, both provider kinds
    n_two = 0
    for label, st in two_scope_cases():
        for tags, K in two_scope_knowledge(st):
            for kind in (["dummy", "sqlalchemy"] if tier != "quick" or label.startswith("samename") else ["dummy"]):
                tasks.append((st, "2s:" + label + ":" + tags, K, kind, False))
                n_two += 1
    res = pmap(_eval, tasks, chunk=8)
    regen = opts.get("regen_pins")
    new_pins, unclassified = {}, []
    nontrivial = set()
    by_kind = {}
    for (st, tags, K, kind, _), r in zip(tasks, res):
        by_kind[kind] = by_kind.get(kind, 0) + 1
        if len(K) >= 2 or any(t in tags for t in "LO"):
            nontrivial.add((r["sql"], json.dumps(K, sort_keys=True)))
        if r.get("ok"):
            continue
        key = f"{kind}|{json.dumps(K, sort_keys=True)}|{r['sql']}"
        dg = common.digest(r["obs"])
        if regen:
            fid = classify(st, tags, K, r)
            if fid is None:
                unclassified.append((f"{kind}|{tags}|{json.dumps(K, sort_keys=True)}|{r['sql']}", r))
            else:
                new_pins[key] = [fid, dg]
            continue
        fid = rep.findings.pinned(key, dg)
        if fid:
            rep.known_finding(fid)
        else:
            rep.violation(r["bad"], {"sql": r["sql"], "ast": st, "knowledge": K, "assignment": tags, "provider": kind},
                          {k: r[k] for k in ("obs", "expected", "delta") if k in r})
    if regen:
        return _write_pins("C13", new_pins, unclassified, replace=(tier == "thorough"))
    # (v) provider reuse: every history of up to L runs on one provider object
    L = 2 if tier == "quick" else 3
    htasks = [(kind, K, h) for kind in ("dummy", "sqlalchemy") for K in RUN_KNOWLEDGE for n in range(2, L + 1) for h in itertools.product(range(len(RUNS)), repeat=n)]
    for t, r in zip(htasks, pmap(_history, htasks, chunk=8)):
        if not r["ok"]:
            rep.violation("reused-provider-answers-differently", {"provider": t[0], "knowledge": t[1], "history": [RUNS[i] for i in t[2]], "history_index": list(t[2])}, r["bad"][0])
    # (vi) explicit column list in every position x knowledge about the target
    ctasks = [(d, sql, K, kind) for d, sql in COLLIST_FORMS for K in COLLIST_KNOWLEDGE for kind in ("dummy", "sqlalchemy")]
    n_collist = n_collist_skipped = 0
    for t, r in zip(ctasks, pmap(_collist, ctasks, chunk=4)):
        if r.get("skip"):
            n_collist_skipped += 1
            continue
        n_collist += 1
        if not r["ok"]:
            rep.violation("explicit-column-list-does-not-win", {"dialect": t[0], "sql": t[1], "knowledge": t[2], "provider": t[3], "collist_form": True},
                          {"with_metadata": r["with_metadata"], "without": r["without"]})
    for t in tasks[:: max(1, len(tasks) // 5)][:5]:
        rep.sample({"sql": sqlgen.render(t[0], sqlgen.R(qualify=SCHEMA)), "knowledge": t[2], "assignment": t[1], "provider": t[3]})
    rep.coverage.update(
        evaluations=len(tasks),
        distinct_nontrivial=len(nontrivial),
        rule=f"C02-generator statements with <= {D} deviations, all tables in schema '{SCHEMA}', x full product of per-table knowledge "
        "{U unknown, E exact, S superset, O overlapping names, L lacking the ambiguous column} filtered for well-formed SQL x target "
        "{unknown, known by position (INSERT, CTAS, CREATE VIEW), known superset of the column list} x provider kind; (iv) statements with two join scopes "
        "(union branch, scalar subquery, EXISTS subquery, CTE; disjoint or overlapping tables; every choice of the two unqualified columns) x every assignment of "
        "{unknown, has c1, has c2, has neither} to their tables; (v) every history of up to "
        f"{L} runs from a menu of {len(RUNS)} scripts on ONE provider object x {len(RUN_KNOWLEDGE)} knowledge maps x both provider kinds, each run compared with a fresh provider; (vi) {len(COLLIST_FORMS)} dialect-specific positions of an explicit INSERT column list x {len(COLLIST_KNOWLEDGE)} knowledge maps about the target x both providers, "
        "answer must equal the one without metadata; non-trivial = >= 2 known tables or an O/L assignment",
        exhaustive=True,
        bound_completed={"deviations": D},
        by_provider_kind=by_kind,
        statements=len(cases),
        two_scope_evaluations=n_two,
        provider_reuse_histories=len(htasks),
        column_list_forms_checked=n_collist,
        column_list_forms_outside=n_collist_skipped,
    )
    rep.assumptions += [
        "reference semantics refsem.columns parameterised by the knowledge map; well-formedness rules of DESIGN.md C13",
        "hash seed pinned to 0: outcomes that depend on set order (F-C11-*) are matched under that seed; C11 explores the orders",
    ]
    return rep.finish()


def replay(body: dict, opts: dict) -> int:
    c = body["case"]
    if c.get("collist_form"):
        r = _collist((c["dialect"], c["sql"], c["knowledge"], c["provider"]))
        print(json.dumps(r, indent=1, default=str)[:3000])
        if r.get("ok") or r.get("skip"):
            print("OK on replay")
            return 0
        print(f"VIOLATION property=C13 replay={opts.get('path', '<replayed>')}")
        return 1
    if "history_index" in c:
        r = _history((c["provider"], c["knowledge"], c["history_index"]))
        print(json.dumps(r, indent=1, default=str)[:3000])
        if r["ok"]:
            print("OK on replay")
            return 0
        print(f"VIOLATION property=C13 replay={opts.get('path', '<replayed>')}")
        return 1
    r = _eval((c["ast"], c["assignment"], c["knowledge"], c["provider"]))
    print(json.dumps(r, indent=1, default=str)[:3000])
    if r.get("ok"):
        print("OK on replay")
        return 0
    key = f"{c['provider']}|{json.dumps(c['knowledge'], sort_keys=True)}|{r['sql']}"
    fid = common.Findings("C13").pinned(key, common.digest(r["obs"]))
    if fid:
        print(f"KNOWN-FINDING: property=C13 {fid}")
        return 0
    print(f"VIOLATION property=C13 replay={opts.get('path', '<replayed>')}")
    return 1
