"""C09 - dialects and both parsers agree on core SQL.

Every generated core statement (C01 table profile and C02 column profile, D <= 1 quick / <= 2 thorough, keyword-free
identifiers, rendered once in the common core syntax) is analysed under all installed sqlfluff dialects and the
sqlparse-based analyzer. Differential oracle, no reference model: every accepting dialect must give the
observation ansi gives (tables and column pairs); the legacy analyzer must give the same tables.
"""
from __future__ import annotations

import json

from vmc import common, observe, sqlgen
from vmc.c01 import _write_pins, all_dialects, enumerate_cases
from vmc.common import HarnessError, Report, pmap

LEGACY = "non-validating"


def _eval(task):
    st, dialect = task
    sql = sqlgen.render(st)  # the common core rendering, identical text for every dialect
    obs = observe.observe(sql, dialect, level="columns")
    if "exception" in obs:
        if obs["exception"] == "InvalidSyntaxException" and (dialect == LEGACY or not observe.sqlfluff_accepts(sql, dialect)):
            return {"skip": True}
        if obs["exception"] == "UnsupportedStatementException":
            return {"skip": True, "unsupported": True}
        return {"obs": {"exception": obs["exception"]}}
    o = {"source": obs["source"], "target": obs["target"]}
    if dialect != LEGACY:
        o["pairs"] = obs["pairs"]
    return {"obs": o}


CORE_KINDS = {"insert", "ctas", "view", "bare", "update", "merge", "delete", "truncate"}


def run(tier: str, opts: dict) -> int:
    rep = Report("C09", tier, "exploration")
    every = all_dialects() + [LEGACY]
    spread = ["ansi", "mysql", "postgres", "tsql", "sparksql", "bigquery", "snowflake", "oracle", "clickhouse", "exasol", LEGACY]
    # (deviation bound, dialects): the inner ball under every dialect, the outer ball under a spread of grammar families
    plan = [(1, every), (2, spread)] if tier == "quick" else [(2, every), (3, spread)]
    if "D" in opts:
        plan = [(int(opts["D"]), every)]
    D = max(p[0] for p in plan)
    dialects = every
    cases = {}
    want = {}
    n_exec = 0
    for profile in (sqlgen.TABLE_PROFILE, sqlgen.COLUMN_PROFILE):
        cs, n = enumerate_cases(profile, D, 2, new_alt_bound=None if tier == "quick" else 1)
        n_exec += n
        for sql, (st, trace, ndev) in cs:
            f = sqlgen.features(st)
            if st["kind"] not in CORE_KINDS or "item:pgcast" in f or any(r.get("quoted") for r in _rels(st)):
                continue  # dialect-specific syntax is not "core SQL"
            if profile is sqlgen.TABLE_PROFILE and ndev > 2:
                continue
            cases.setdefault(sql, st)
            ds = next(dl for dev, dl in plan if ndev <= dev)
            if sql not in want or len(ds) > len(want[sql]):
                want[sql] = ds
    items = sorted(cases.items(), key=lambda kv: (len(kv[0]), kv[0]))
    tasks = [(st, d) for sql, st in items for d in want[sql]]
    res = pmap(_eval, tasks, chunk=32)
    regen = opts.get("regen_pins")
    new_pins, unclassified = {}, []
    per_dialect = {d: {"accepted": 0, "rejected": 0, "deviates": 0} for d in dialects}
    idx = 0
    nontrivial = 0
    evaluations = 0
    for sql, st in items:
        by = {}
        for d in want[sql]:
            r = res[idx]
            idx += 1
            if r.get("skip"):
                per_dialect[d]["rejected"] += 1
                continue
            per_dialect[d]["accepted"] += 1
            evaluations += 1
            by[d] = r["obs"]
        if "ansi" not in by:
            raise HarnessError(f"core statement not accepted by ansi: {sql}")
        if len(by) >= 3:
            nontrivial += 1
        ref = by["ansi"]
        for d, o in by.items():
            if d == "ansi":
                continue
            same = (o.get("source"), o.get("target")) == (ref.get("source"), ref.get("target")) if d == LEGACY else o == ref
            if same:
                continue
            per_dialect[d]["deviates"] += 1
            key = f"{d}|{sql}"
            dg = common.digest([o, ref])
            fid = f"F-C09-{d}-deviates"
            if regen:
                new_pins[key] = [fid, dg]
                continue
            if rep.findings.pinned(key, dg):
                rep.known_finding(fid)
            else:
                rep.violation("dialect-disagrees-with-ansi", {"dialect": d, "sql": sql, "ast": st}, {"observed": o, "ansi": ref})
    if regen:
        by_f = {}
        for k, (fid, _) in new_pins.items():
            by_f.setdefault(fid, []).append(k)
        for fid, ks in sorted(by_f.items()):
            print(fid, len(ks), "e.g.", sorted(ks, key=len)[:3])
        return _write_pins("C09", new_pins, [], replace=(tier == "thorough"))
    for sql, st in items[:: max(1, len(items) // 4)][:4]:
        rep.sample({"sql": sql})
    rep.coverage.update(
        evaluations=evaluations,
        distinct_nontrivial=nontrivial,
        distinct_statements=len(items),
        generator_executions=n_exec,
        rule=f"C01 and C02 generator cases, core statement kinds only, one rendering; plan (deviation bound, number of dialects) = {[(a, len(b)) for a, b in plan]}; "
        "non-trivial = statement accepted by >= 3 dialects (so that agreement is a real comparison)",
        exhaustive=True,
        bound_completed={"plan": [(a, b) for a, b in plan]},
        per_dialect=per_dialect,
    )
    rep.assumptions += [
        "ansi (the library's default dialect) is the point of comparison; a deviation is reported per (dialect, statement)",
        "the legacy analyzer is compared on tables only, as the property states",
        "known findings matched exactly per (dialect, statement, observed answer, ansi answer) from pins/C09.json",
    ]
    return rep.finish()


def _rels(st):
    out = []
    sqlgen.walk_rels(st, out.append)
    return out


def replay(body: dict, opts: dict) -> int:
    c = body["case"]
    o = _eval((c["ast"], c["dialect"]))
    ref = _eval((c["ast"], "ansi"))
    print(json.dumps({"dialect": c["dialect"], "observed": o, "ansi": ref}, indent=1)[:3000])
    if o.get("skip") or o.get("obs") == ref.get("obs"):
        print("OK on replay")
        return 0
    if c["dialect"] == LEGACY and (o["obs"].get("source"), o["obs"].get("target")) == (ref["obs"].get("source"), ref["obs"].get("target")):
        print("OK on replay")
        return 0
    if common.Findings("C09").pinned(f"{c['dialect']}|{c['sql']}", common.digest([o["obs"], ref["obs"]])):
        print(f"KNOWN-FINDING: property=C09 F-C09-{c['dialect']}-deviates")
        return 0
    print(f"VIOLATION property=C09 replay={opts.get('path', '<replayed>')}")
    return 1
