"""C10 - total error contract; silent mode skips unsupported statements.

E5 fault / edit injection, all enumerated:
(a) token edits: seeds = one statement per extractor family and dialect-specific handler; every single edit {delete, duplicate,
    swap-adjacent, insert a, replace by a} at every token position over an 18-letter alphabet (thorough: pairs of edits over
    the 6 metacharacters for the shortest seeds) under the seed's dialect, ansi and the sqlparse analyzer;
(b) every corpus statement under every dialect (valid elsewhere, near-valid here);
(c) bracket nesting 1..30 at three positions;
(d) silent mode: scripts of 1-3 supported statements x every statement that the library itself declares unsupported, inserted
    at every position, silent on / off; plus texts that contain no statement at all.
Oracle: outcome in {result, exception deriving from SQLLineageException} for every accessor, also when accessed again
after a failure; text sqlfluff cannot parse must be reported as InvalidSyntaxException; silent mode = warning + the result
of the script without the statement; non-silent = UnsupportedStatementException.
Known findings are matched by call site: (analyzer, exception class, innermost sqllineage frame).
"""
from __future__ import annotations

import itertools
import json
import re
import traceback
import warnings

from vmc import common, corpus, observe
from vmc.common import HarnessError, Report, pmap

LEGACY = "non-validating"
ALPHABET = ["(", ")", ",", ";", ".", "*", "'", '"', "`", "{{", "{%", "}}", "SELECT", "FROM", "JOIN", "AS", "1", "x"]
META = ["(", ")", ",", ";", "'", "{{"]

SEEDS = [
    ("ansi", "INSERT INTO t1 (a, b) SELECT x.c1 AS a, max(y.c2) b FROM t2 x LEFT JOIN (SELECT c2, id FROM t3 WHERE c3 IN (SELECT c3 FROM t4)) y ON x.id = y.id GROUP BY x.c1"),
    ("ansi", "CREATE TABLE t1 AS SELECT CASE WHEN a > 0 THEN (SELECT max(b) FROM t3) ELSE 0 END AS c, CAST(d AS int) AS d2, sum(e) OVER (PARTITION BY f ORDER BY g) AS w FROM t2"),
    ("ansi", "WITH c AS (SELECT a FROM t2 UNION ALL SELECT a FROM t3) INSERT INTO t1 SELECT a FROM c"),
    ("ansi", "MERGE INTO tgt t USING (SELECT id, v FROM src) s ON t.id = s.id WHEN MATCHED THEN UPDATE SET t.v = s.v WHEN NOT MATCHED THEN INSERT (id, v) VALUES (s.id, s.v)"),
    ("ansi", "UPDATE t1 SET a = t2.b FROM t2 WHERE t1.id = t2.id"),
    ("mysql", "UPDATE t1 JOIN t2 ON t1.id = t2.id SET t1.a = t2.b"),
    ("ansi", "CREATE VIEW v1 (a, b) AS SELECT c1, c2 FROM t1, t2"),
    ("ansi", "ALTER TABLE t1 RENAME TO t2"),
    ("mysql", "RENAME TABLE t1 TO t2"),
    ("ansi", "DROP TABLE IF EXISTS t1"),
    ("ansi", "CREATE TABLE t1 LIKE t2"),
    ("ansi", "INSERT INTO t1 VALUES (1, (SELECT max(a) FROM t2))"),
    ("ansi", "DELETE FROM t1 WHERE a IN (SELECT a FROM t2)"),
    ("ansi", "TRUNCATE TABLE t1"),
    ("sparksql", "INSERT OVERWRITE TABLE t1 PARTITION (dt = 'x') SELECT a, b FROM t2 LATERAL VIEW explode(arr) tt AS b"),
    ("sparksql", "CACHE TABLE t1 SELECT a FROM t2"),
    ("hive", "ALTER TABLE t1 EXCHANGE PARTITION (p = 1) WITH TABLE t2"),
    ("hive", "INSERT OVERWRITE DIRECTORY '/tmp/x' SELECT a FROM t1"),
    ("tsql", "SELECT a INTO t1 FROM t2 INNER JOIN t3 ON t2.id = t3.id"),
    ("tsql", "CREATE TABLE t1 (a int) SELECT a FROM t2 INSERT INTO t3 SELECT a FROM t1"),
    ("postgres", "INSERT INTO t1 SELECT a::int, b FROM t2 x, LATERAL (SELECT b FROM t3 WHERE t3.id = x.id) y"),
    ("postgres", "COPY t1 FROM '/tmp/x.csv'"),
    ("postgres", "UPDATE ONLY t1 SET a = b"),
    ("postgres", "INSERT INTO a SELECT x INTO b FROM c"),
    ("snowflake", "COPY INTO t1 FROM @stage/file.csv"),
    ("snowflake", "CREATE TABLE t1 CLONE t2"),
    ("bigquery", "MERGE t1 USING t2 ON t1.id = t2.id WHEN NOT MATCHED THEN INSERT (a) VALUES (t2.a, t2.b)"),
    ("bigquery", "SELECT a FROM UNNEST([1, 2]) AS a"),
    ("vertica", "SELECT swap_partitions_between_tables('staging', 'min', 'max', 'target')"),
    ("vertica", "INSERT INTO t9 SELECT swap_partitions_between_tables('staging', 'min', 'max', 'target')"),
    ("redshift", "CREATE TABLE t1 AS SELECT a FROM t2"),
    ("databricks", "INSERT INTO t1 SELECT * FROM parquet.`/data/x`"),
    ("athena", "INSERT INTO t1 VALUES ((SELECT max(a) FROM t2))"),
    ("oracle", "INSERT INTO t1 SELECT a FROM t2 WHERE ROWNUM < 2"),
    ("clickhouse", "INSERT INTO t1 SELECT a FROM t2 WHERE a IN (SELECT a FROM t3)"),
    ("duckdb", "CREATE TABLE t1 AS SELECT * FROM t2 USING SAMPLE 10"),
    ("trino", "INSERT INTO t1 SELECT a FROM t2 CROSS JOIN UNNEST(arr) AS t (a)"),
    ("teradata", "SELECT a FROM t1 QUALIFY row_number() OVER (PARTITION BY b ORDER BY c) = 1"),
    ("exasol", "CREATE VIEW v1 AS SELECT a FROM t1"),
    ("ansi", "SELECT a FROM t1; INSERT INTO t2 SELECT a FROM t1"),
    ("mysql", "RENAME TABLE a TO b, b TO c"),
]

QUICK_SEEDS = [
    ("ansi", "INSERT INTO t1 SELECT a FROM s1; INSERT INTO t2 SELECT b FROM s2"),  # edits at a statement boundary
    ("ansi", "INSERT INTO t1 (a) SELECT x.c FROM t2 x JOIN t3 ON 1 = 1"),
    ("ansi", "CREATE TABLE t1 AS SELECT CASE WHEN a > 0 THEN (SELECT max(b) FROM t3) ELSE 0 END AS c FROM t2"),
    ("ansi", "WITH c AS (SELECT a FROM t2) INSERT INTO t1 SELECT a FROM c"),
    ("ansi", "MERGE INTO t1 t USING t2 s ON t.id = s.id WHEN MATCHED THEN UPDATE SET t.v = s.v"),
    ("bigquery", "MERGE t1 USING t2 ON t1.id = t2.id WHEN NOT MATCHED THEN INSERT (a) VALUES (t2.a)"),
    ("ansi", "UPDATE t1 SET a = t2.b FROM t2"),
    ("mysql", "UPDATE t1 JOIN t2 ON 1 = 1 SET t1.a = t2.b"),
    ("postgres", "UPDATE ONLY t1 SET a = b"),
    ("ansi", "CREATE VIEW v1 (a) AS SELECT c1 FROM t1, t2"),
    ("mysql", "RENAME TABLE a TO b, b TO c"),
    ("ansi", "ALTER TABLE t1 RENAME TO t2"),
    ("ansi", "DROP TABLE IF EXISTS t1"),
    ("ansi", "INSERT INTO t1 VALUES ((SELECT max(a) FROM t2))"),
    ("sparksql", "INSERT OVERWRITE TABLE t1 SELECT a FROM t2 LATERAL VIEW explode(arr) tt AS b"),
    ("tsql", "SELECT a INTO t1 FROM t2"),
    ("postgres", "INSERT INTO a SELECT x INTO b FROM c"),
    ("postgres", "COPY t1 FROM '/tmp/x.csv'"),
    ("snowflake", "COPY INTO t1 FROM @stage/file.csv"),
    ("vertica", "SELECT swap_partitions_between_tables('s', 1, 2, 't')"),
    ("hive", "ALTER TABLE t1 EXCHANGE PARTITION (p = 1) WITH TABLE t2"),
    ("ansi", "SELECT sum(e) OVER (PARTITION BY f ORDER BY g) AS w FROM t2"),
    ("exasol", "SELECT a FROM table(generator()) v"),
]

NO_STATEMENT = [("ansi", "{# just a comment #}"), ("tsql", "GO"), ("ansi", "-- nothing here"), ("ansi", "/* nothing */"), ("ansi", ";"), ("ansi", ""), ("postgres", "\\set x 1")]
MAYBE_UNSUPPORTED = [
    ("ansi", "GRANT SELECT ON t1 TO u1"),
    ("ansi", "CREATE INDEX i1 ON t1 (a)"),
    ("ansi", "COMMIT"),
    ("ansi", "WITH c AS (SELECT a FROM s1) DELETE FROM t1 WHERE a IN (SELECT a FROM c)"),
    ("tsql", "WITH c AS (SELECT a FROM s1) MERGE INTO t1 USING c ON t1.a = c.a WHEN MATCHED THEN DELETE;"),
    ("postgres", "VACUUM t1"),
    ("ansi", "EXPLAIN SELECT a FROM t1"),
    ("tsql", "BEGIN SELECT 1 END"),
    ("mysql", "CALL p1()"),
    ("snowflake", "CREATE STAGE s1"),
    ("sparksql", "MSCK REPAIR TABLE t1"),
    ("postgres", "CREATE EXTENSION x"),
]
# look-alikes of every statement kind an extractor handles (rename, drop, create, copy, alter ..) whose names collide with
# the tables of SUPPORTED; each is tried under every dialect and used where the library itself declares it unsupported
UNSUPPORTED_CANDIDATES = [
    "ALTER VIEW t1 RENAME TO w1", "ALTER INDEX t1 RENAME TO w1", "ALTER SCHEMA t1 RENAME TO w1", "ALTER SEQUENCE t1 RENAME TO w1",
    "ALTER MATERIALIZED VIEW t1 RENAME TO w1", "ALTER DATABASE t1 RENAME TO w1", "ALTER VIEW t2 RENAME TO t1",
    "DROP INDEX t1", "DROP SCHEMA t1", "DROP FUNCTION t1", "DROP SEQUENCE t1", "DROP DATABASE t1", "DROP ROLE t1", "DROP TYPE t1",
    "CREATE SCHEMA t1", "CREATE DATABASE t1", "CREATE SEQUENCE t1", "CREATE INDEX t1 ON t2 (a)", "CREATE ROLE t1", "CREATE USER t1",
    "GRANT SELECT ON t1 TO u1", "REVOKE SELECT ON t1 FROM u1", "COMMENT ON TABLE t1 IS 'x'", "ANALYZE t1", "ANALYZE TABLE t1 COMPUTE STATISTICS",
    "VACUUM t1", "EXPLAIN SELECT a FROM t1", "EXPLAIN INSERT INTO t1 SELECT a FROM t2", "DESCRIBE t1", "SHOW TABLES", "USE t1", "SET x = 1",
    "BEGIN", "COMMIT", "ROLLBACK", "CALL t1()", "LOCK TABLE t1 IN EXCLUSIVE MODE", "REFRESH MATERIALIZED VIEW t1", "REFRESH TABLE t1",
    "MSCK REPAIR TABLE t1", "UNCACHE TABLE t1", "OPTIMIZE t1", "CREATE STAGE t1", "DECLARE c1 CURSOR FOR SELECT a FROM t1",
    "PREPARE p1 AS SELECT a FROM t1", "EXECUTE p1", "DISCARD ALL", "CLUSTER t1", "REINDEX TABLE t1", "CREATE EXTENSION t1",
    "DROP EXTENSION t1", "ALTER TABLE t1 OWNER TO u1", "ALTER ROLE t1 RENAME TO w1", "DROP TRIGGER t1 ON t2", "CHECKPOINT", "UNLOAD t1",
]
SILENT_QUICK_DIALECTS = ["ansi", "postgres", "sparksql", "snowflake", "tsql", "mysql"]
SUPPORTED = ["INSERT INTO t1 SELECT a FROM s1", "CREATE TABLE t2 AS SELECT a, b FROM t1 JOIN s2 ON 1 = 1", "SELECT a FROM t2"]

_TOK = re.compile(r"\s+|\w+|'[^']*'|\"[^\"]*\"|`[^`]*`|\{\{|\{%|\}\}|.", re.S)


def tokens(sql):
    return [t for t in _TOK.findall(sql)]


def edits(toks, alphabet):
    """every single edit, as (label, token list)"""
    idx = [i for i, t in enumerate(toks) if not t.isspace()]
    for i in idx:
        yield (f"del@{i}", toks[:i] + toks[i + 1:])
        yield (f"dup@{i}", toks[:i] + [toks[i], " ", toks[i]] + toks[i + 1:])
    for a, b in zip(idx, idx[1:]):
        t = list(toks)
        t[a], t[b] = t[b], t[a]
        yield (f"swap@{a}", t)
    for i in idx + [len(toks)]:
        for a in alphabet:
            yield (f"ins{a}@{i}", toks[:i] + [" ", a, " "] + toks[i:])
    for i in idx:
        for a in alphabet:
            if a != toks[i]:
                yield (f"rep{a}@{i}", toks[:i] + [a] + toks[i + 1:])


# ------------------------------------------------------------------------------------------------
def site_of(e):
    """innermost frame inside sqllineage (file:function) - the call site a finding is identified by"""
    tb = traceback.extract_tb(e.__traceback__)
    for fr in reversed(tb):
        if "/sqllineage/" in fr.filename:
            return fr.filename.split("/sqllineage/", 1)[1] + ":" + fr.name
    return "outside-sqllineage"


ACCESSORS = ["statements", "source_tables", "target_tables", "intermediate_tables", "columns", "columns_full", "cyto", "cyto_col", "str"]


def access(r, name):
    from sqllineage.utils.constant import LineageLevel

    if name == "statements":
        return r.statements()
    if name == "columns":
        return r.get_column_lineage()
    if name == "columns_full":
        return r.get_column_lineage(exclude_path_ending_in_subquery=False, exclude_subquery_columns=True)
    if name == "cyto":
        return r.to_cytoscape()
    if name == "cyto_col":
        return r.to_cytoscape(LineageLevel.COLUMN)
    if name == "str":
        return str(r)
    return getattr(r, name)


def outcome(sql, dialect, silent=False):
    """-> {"kind": "result"|"library"|"escape", ...}; every accessor is called, and again after a failure"""
    from sqllineage.exceptions import SQLLineageException
    from sqllineage.runner import LineageRunner

    with warnings.catch_warnings(record=True) as w:
        warnings.simplefilter("always")
        try:
            r = LineageRunner(sql, dialect=dialect, silent_mode=silent)
        except Exception as e:  # noqa
            return {"kind": "escape", "exc": type(e).__name__, "site": site_of(e), "phase": "constructor"}
        first = None
        for k, name in enumerate(ACCESSORS + ACCESSORS[1:3]):
            try:
                access(r, name)
            except SQLLineageException as e:
                if first is None:
                    first = {"kind": "library", "exc": type(e).__name__, "accessor": name}
            except RecursionError as e:
                return {"kind": "escape", "exc": "RecursionError", "site": "recursion", "phase": name}
            except Exception as e:  # noqa
                return {"kind": "escape", "exc": type(e).__name__, "site": site_of(e), "phase": name + ("(again)" if k >= len(ACCESSORS) or first else "")}
        warns = sorted({str(x.message)[:60] for x in w if x.category not in (DeprecationWarning,)})
    if first:
        return first
    anon = observe.Anon()
    obs = {
        "source": [str(t) for t in r.source_tables], "target": [str(t) for t in r.target_tables], "intermediate": [str(t) for t in r.intermediate_tables],
        "pairs": sorted([observe.col_str(p[0], anon), observe.col_str(p[-1], anon)] for p in r.get_column_lineage()),
    }
    return {"kind": "result", "obs": obs, "warnings": warns}


def _eval(task):
    part, dialect, sql, extra = task
    o = outcome(sql, dialect)
    res = {"part": part, "kind": o["kind"]}
    if o["kind"] == "escape":
        res.update(exc=o["exc"], site=o["site"], phase=o["phase"])
        return res
    if o["kind"] == "result" and dialect != LEGACY and extra.get("check_parse", True):
        if not observe.sqlfluff_accepts(sql, dialect) and sql.strip().strip(";").strip():
            # every statement of the script must be parsable for a result to be legitimate
            from sqllineage.utils.helpers import split

            if any(not observe.sqlfluff_accepts(s, dialect) for s in split(sql.strip())):
                res["unparsable_but_analysed"] = True
            elif "--" not in sql and "/*" not in sql and "#" not in sql and "{" not in sql:
                # the same question with a splitter of the harness' own (semicolons outside quotes), so that a piece the
                # library's splitter silently drops is still judged
                pieces, cur = [], []
                for t in tokens(sql):
                    if t == ";":
                        pieces.append("".join(cur))
                        cur = []
                    else:
                        cur.append(t)
                pieces.append("".join(cur))
                if any(p.strip() and not observe.sqlfluff_accepts(p, dialect) for p in pieces):
                    res["unparsable_but_analysed"] = True
    if o["kind"] == "library":
        res["exc"] = o["exc"]
    return res


def _silent(task):
    dialect, stmts, k, unsupported = task
    base_script = ";\n".join(stmts)
    with_u = list(stmts)
    with_u.insert(k, unsupported)
    script = ";\n".join(with_u)
    normal = outcome(script, dialect, silent=False)
    silent = outcome(script, dialect, silent=True)
    ref = outcome(base_script, dialect, silent=True)
    bad = []
    if normal["kind"] == "escape" or silent["kind"] == "escape":
        o = normal if normal["kind"] == "escape" else silent
        return {"escape": o, "script": script}
    if normal["kind"] != "library" or normal["exc"] != "UnsupportedStatementException":
        bad.append(f"non-silent mode: expected UnsupportedStatementException, got {normal.get('exc', normal['kind'])}")
    if silent["kind"] != "result":
        bad.append(f"silent mode raised {silent.get('exc')}")
    else:
        if silent["obs"] != ref["obs"]:
            bad.append("silent result differs from the script without the statement")
        if not any("doesn't support" in x or "support" in x for x in silent["warnings"]):
            bad.append("no warning in silent mode")
    return {"bad": bad, "script": script}


def _is_unsupported(task):
    d, sql = task
    o = outcome(sql, d)
    return o["kind"] == "library" and o["exc"] == "UnsupportedStatementException"


def _nostmt(task):
    dialect, script = task
    o = outcome(script, dialect, silent=True)
    return {"script": script, "o": {k: v for k, v in o.items() if k != "obs"}}


def run(tier: str, opts: dict) -> int:
    rep = Report("C10", tier, "fault_enumeration")
    tasks = []
    # (a) token edits
    quick_alphabet = ["(", ")", ",", ";", ".", "'", "{{", "SELECT"]
    for dialect, sql in (SEEDS + QUICK_SEEDS if tier != "quick" else QUICK_SEEDS):
        toks = tokens(sql)
        ds = [dialect, LEGACY] + (["ansi"] if tier != "quick" and dialect != "ansi" else [])
        for label, t in edits(toks, ALPHABET if tier != "quick" else quick_alphabet):
            text = "".join(t)
            for d in ds:
                if tier == "quick" and d == LEGACY and label[:3] in ("ins", "rep") and not label[3:].startswith(("(", ")", ",", ".")):
                    continue  # quick: the legacy analyzer sees structural edits only
                tasks.append(("edit", d, text, {"seed": sql, "edit": label}))
    if tier != "quick":
        for dialect, sql in sorted(SEEDS, key=lambda s: len(s[1]))[:12]:
            toks = tokens(sql)
            for (l1, t1) in edits(toks, META):
                if not l1.startswith("ins"):
                    continue
                for (l2, t2) in edits(t1, META):
                    if l2.startswith("ins") or l2.startswith("del"):
                        tasks.append(("edit2", dialect, "".join(t2), {"seed": sql, "edit": l1 + "+" + l2}))
    # (b) corpus x every dialect
    from vmc.c01 import all_dialects

    every = all_dialects() + [LEGACY]
    spread = ["ansi", "tsql", "mysql", "sparksql", LEGACY]
    for r in corpus.corpus(("tests", "docs")):
        for d in every if tier != "quick" else sorted(set(spread) | set(corpus.dialects_of(r))):
            tasks.append(("corpus", d, r["sql"], {"id": r["id"], "check_parse": False}))
    tp = corpus.corpus(("tpcds",))
    for r in tp if tier != "quick" else tp[:6]:
        for d in (["ansi", LEGACY] if tier == "quick" else ["ansi", "tsql", "mysql", "postgres", "sparksql", "bigquery", "snowflake", LEGACY]):
            tasks.append(("corpus", d, r["sql"], {"id": r["id"], "check_parse": False}))
    # (c) bracket nesting
    for n in (range(1, 31) if tier != "quick" else (1, 2, 3, 5, 8, 13, 21, 30)):
        for tpl in ("SELECT {o}1{c} FROM t1", "SELECT a FROM {o}t1{c}", "INSERT INTO t2 SELECT a FROM t1 WHERE a IN {o}SELECT a FROM t3{c}", "SELECT a FROM {o}SELECT a FROM t1{c} x"):
            for d in ("ansi", "tsql", LEGACY):
                tasks.append(("nesting", d, tpl.format(o="(" * n, c=")" * n), {"depth": n, "check_parse": n <= 6}))
    # (e) template expressions: the templater EVALUATES what stands between {{ }} / {% %}; every expression atom x operator x atom
    atoms = ["1", "0", "x", "'a'", "[1]", "none", "10 ** 400", "range(10 ** 9)"]
    binops = ["{a} / {b}", "{a} % {b}", "{a} // {b}", "{a} + {b}", "{a} * {b}", "{a} ** {b}", "{a}[{b}]", "{a}.{b}", "{a} | int", "{a} | list", "{a} | first", "{a}({b})", "{a} ~ {b}", "{a} < {b}"]
    exprs = list(dict.fromkeys(op.format(a=a, b=b) for op in binops for a in atoms for b in atoms
                              if not ("range" in a and "range" in b) and not ("**" in op and ("**" in a or "**" in b))))
    for e in exprs:
        for tpl in ("SELECT a, {{{{ {e} }}}} AS b FROM t1", "INSERT INTO t2 SELECT a FROM t1 WHERE '{{{{ {e} }}}}' = b", "SELECT a FROM t1 {{% if {e} %}} WHERE a = 1 {{% endif %}}"):
            for d in ("ansi", LEGACY) if tpl.startswith("SELECT a,") else ("ansi",):  # the sqlparse-based analyzer does not template: one position is enough there
                tasks.append(("template", d, tpl.format(e=e), {"expr": e, "check_parse": False}))
    # no statement at all / seeds themselves
    for d, sql in NO_STATEMENT + SEEDS + QUICK_SEEDS:
        tasks.append(("seed", d, sql, {}))
        tasks.append(("seed", LEGACY, sql, {}))
    seen = set()
    uniq = []
    for t in tasks:
        k = (t[1], t[2])
        if k not in seen:
            seen.add(k)
            uniq.append(t)
    res = pmap(_eval, uniq, chunk=32)
    known = {}
    for e in rep.findings.entries.values():
        for s in e.get("signatures", []):
            known[s] = e["id"]
    kinds = {"result": 0, "library": 0, "escape": 0}
    by_part = {}
    regen = opts.get("regen_pins")
    sigs = {}
    nontrivial = 0
    for t, r in zip(uniq, res):
        kinds[r["kind"]] += 1
        by_part[t[0]] = by_part.get(t[0], 0) + 1
        if r["kind"] != "library" or t[0] != "edit":
            nontrivial += 1
        if r["kind"] == "escape":
            s = f"{'legacy' if t[1] == LEGACY else 'sqlfluff'}|{r['exc']}|{r['site']}"
            if regen:
                sigs.setdefault(s, []).append((t[1], t[2], r["phase"]))
                continue
            if s in known:
                rep.known_finding(known[s])
            else:
                rep.violation("internal-error-escapes", {"part": t[0], "dialect": t[1], "sql": t[2], "info": t[3]}, {"exception": r["exc"], "site": r["site"], "accessor": r["phase"], "signature": s})
        elif r.get("unparsable_but_analysed"):
            s = f"{'sqlfluff'}|unparsable-text-analysed|{t[0]}"
            if regen:
                sigs.setdefault(s, []).append((t[1], t[2], ""))
                continue
            if s in known:
                rep.known_finding(known[s])
            else:
                rep.violation("unparsable-text-not-reported-as-invalid-syntax", {"part": t[0], "dialect": t[1], "sql": t[2], "info": t[3]}, {"signature": s})
    # (d) silent mode
    cands = list(MAYBE_UNSUPPORTED) + [(d, u) for d in (SILENT_QUICK_DIALECTS if tier == "quick" else all_dialects()) for u in UNSUPPORTED_CANDIDATES]
    cands = list(dict.fromkeys(cands))
    unsupported = [c for c, ok in zip(cands, pmap(_is_unsupported, cands, chunk=16)) if ok]
    stasks = []
    for d, u in unsupported:
        dedicated = (d, u) in MAYBE_UNSUPPORTED
        for n in ((1, 2, 3) if dedicated or tier != "quick" else (3,)):
            stmts = SUPPORTED[:n]
            for k in range(n + 1):
                stasks.append((d, stmts, k, u))
    sres = pmap(_silent, stasks, chunk=4)
    for t, r in zip(stasks, sres):
        if "escape" in r:
            o = r["escape"]
            s = f"sqlfluff|{o['exc']}|{o['site']}"
            if regen:
                sigs.setdefault(s, []).append((t[0], r["script"], "silent"))
            elif s in known:
                rep.known_finding(known[s])
            else:
                rep.violation("internal-error-escapes", {"part": "silent", "dialect": t[0], "sql": r["script"]}, {"exception": o["exc"], "site": o["site"], "signature": s})
        elif r["bad"]:
            if regen:
                sigs.setdefault("silent|" + r["bad"][0][:60], []).append((t[0], r["script"], ""))
            else:
                rep.violation("silent-mode-contract", {"part": "silent", "dialect": t[0], "sql": r["script"], "unsupported": t[3], "position": t[2]}, {"bad": r["bad"]})
    # texts that contain no statement at all, alone and at the end of a script, in silent mode
    ntasks = []
    for d, text in NO_STATEMENT:
        ntasks += [(d, text), (d, SUPPORTED[0] + ";\n" + text), (d, text + "\n;\n" + SUPPORTED[0])]
    for t, r in zip(ntasks, pmap(_nostmt, ntasks, chunk=2)):
        o = r["o"]
        if o["kind"] == "escape":
            s = f"sqlfluff|{o['exc']}|{o['site']}"
            if regen:
                sigs.setdefault(s, []).append((t[0], r["script"], "silent/no-statement"))
            elif s in known:
                rep.known_finding(known[s])
            else:
                rep.violation("internal-error-escapes", {"part": "silent-no-statement", "dialect": t[0], "sql": r["script"], "silent": True}, {"exception": o["exc"], "site": o["site"], "signature": s})
    if regen:
        for s, items in sorted(sigs.items(), key=lambda kv: -len(kv[1])):
            print(len(items), s)
            for it in sorted(items, key=lambda x: len(x[1]))[:3]:
                print("      ", it[0], "|", repr(it[1][:160]), "|", it[2])
        return 0
    for t in uniq[:: max(1, len(uniq) // 5)][:5]:
        rep.sample({"part": t[0], "dialect": t[1], "sql": t[2][:200]})
    rep.coverage.update(
        evaluations=len(uniq) + 3 * len(stasks),
        distinct_nontrivial=nontrivial,
        rule=f"(a) {len(SEEDS) + len(QUICK_SEEDS) if tier != 'quick' else len(QUICK_SEEDS)} seeds x every single edit (delete, duplicate, swap-adjacent, insert a, replace by a; alphabet {ALPHABET if tier != 'quick' else quick_alphabet}) at every token, under the seed's dialect and "
        "the sqlparse analyzer (+ansi, + pairs of metacharacter edits for the 12 shortest seeds in thorough); (b) every corpus statement under all 29 analyzers; (c) bracket nesting "
        "1..30 at 4 positions x 3 analyzers; (e) every jinja expression atom x operator x atom (8 atoms, 14 operator forms) in a {{ }} select item, inside a string literal and as an {% if %} condition; (d) every candidate text (look-alikes of each supported statement kind, colliding table names) x dialect that the library declares unsupported, at every position of 1-3 supported statements, silent on/off; non-trivial = inputs that "
        "got past the parser (result or non-syntax outcome) or come from parts b-d",
        exhaustive=True,
        outcomes=kinds,
        by_part=by_part,
        silent_mode_scripts=len(stasks),
        unsupported_statements_used=len(unsupported),
        unsupported_statement_texts=sorted({u for _, u in unsupported}),
    )
    rep.assumptions += [
        "a neighbourhood of valid SQL (one / two edits from a seed), not all strings",
        "library's own exception types = subclasses of SQLLineageException",
        "known findings matched by call site signature (analyzer, exception class, innermost sqllineage frame) listed in known_findings.json",
    ]
    return rep.finish()


def replay(body: dict, opts: dict) -> int:
    c = body["case"]
    if c.get("part") == "silent" and "unsupported" in c:
        print("silent-mode case; re-run the check for the full comparison")
    o = outcome(c["sql"], c["dialect"], silent=bool(c.get("silent")))
    print(json.dumps(o, indent=1, default=str)[:2000])
    if o["kind"] != "escape":
        print("OK on replay (no internal error escapes)")
        return 0
    s = f"{'legacy' if c['dialect'] == LEGACY else 'sqlfluff'}|{o['exc']}|{o['site']}"
    f = common.Findings("C10")
    fid = next((e["id"] for e in f.entries.values() if s in e.get("signatures", [])), None)
    if fid:
        print(f"KNOWN-FINDING: property=C10 {fid}")
        return 0
    print(f"VIOLATION property=C10 replay={opts.get('path', '<replayed>')}")
    return 1
