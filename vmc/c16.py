"""C16 - identifiers denote the same entity wherever they appear.

Full product: base name in {abc, ABC, AbC} x quoting (as the dialect allows) x pair of syntactic positions
(written-as, read-as). Reference normalisation N: unquoted -> lower case; quoted -> quotes stripped, case kept; a
dotted name splits at its last dot. Two spellings denote the same entity iff their N-images are equal; the
script must chain (intermediate table / end-to-end column path / resolved qualifier / CTE not a table) iff
they are, printed names must be the N-images, and == / hash of the model objects built by the public
constructors must agree with N-equality.
"""
from __future__ import annotations

import itertools
import json

from vmc import common, observe
from vmc.common import HarnessError, Report, pmap

QUOTE = {
    "ansi": ["{}", '"{}"'],
    "postgres": ["{}", '"{}"'],
    "snowflake": ["{}", '"{}"'],
    "mysql": ["{}", "`{}`"],
    "sparksql": ["{}", "`{}`"],
    "bigquery": ["{}", "`{}`"],
    "tsql": ["{}", "[{}]", '"{}"'],
}
QUICK_DIALECTS = ["ansi", "mysql", "tsql"]
BASES = ["abc", "ABC", "AbC"]


def N(sp: str) -> str:
    """reference normalisation of one identifier part"""
    if sp[0] in '"`[':
        return sp[1:-1]
    return sp.lower()


def quoted(sp):
    return sp[0] in '"`['


# position-pair templates: (name, sql template, kind of chaining evidence)
TEMPLATES = [
    ("table", "insert into {w} select x from src; insert into fin select x from {r}", "mid-table"),
    ("schema", "insert into {w}.mid select x from src; insert into fin select x from {r}.mid", "mid-table"),
    ("db.schema", "insert into {w}.sch.mid select x from src; insert into fin select x from {r}.sch.mid", "mid-table"),
    ("schema-of-db", "insert into db.{w}.mid select x from src; insert into fin select x from db.{r}.mid", "mid-table"),
    ("col-alias->col", "insert into mid select x as {w} from src; insert into fin select {r} from mid", "col-chain"),
    ("col-name->col", "insert into mid select {w} from src; insert into fin select {r} as y from mid", "col-chain"),
    ("col-list->col", "insert into mid ({w}) select x from src; insert into fin select {r} as y from mid", "col-chain"),
    ("col->expr-arg", "insert into mid select x as {w} from src; insert into fin select max({r}) as y from mid", "col-chain"),
    ("col->qualified-col", "insert into mid select x as {w} from src; insert into fin select m.{r} as y from mid m", "col-chain"),
    ("col->unqualified-over-join", "insert into mid select x as {w} from src; insert into fin select {r} as y from mid join other on 1 = 1", "col-chain"),
    ("alias->qualifier", "insert into fin select {r}.x from src {w}", "qualifier"),
    ("table->qualifier", "insert into fin select {r}.x from {w}", "table-qualifier"),
    ("cte-name->from", "insert into fin with {w} as (select x from src) select x from {r}", "cte"),
    ("table->rename-operand", "insert into {w} select x from src; alter table {r} rename to fin2", "rename"),
    ("derived-alias->qualifier", "insert into fin select {r}.x from (select x from src) {w}", "qualifier"),
    ("target->self-read", "insert into {w} select x from {r}", "selfloop"),
    ("alias-with-column-list->qualifier", "insert into fin select {r}.x from src as {w} (x, y)", "qualifier"),
    # session knowledge is keyed by the table: two spellings are two tables iff their normalisations differ (provider in use)
    # a whole dotted path inside ONE pair of backticks names the same table as the path quoted part by part
    ("whole-path-in-backticks", "insert into `{wb}.Mid` select x from src; insert into fin select x from {r}.`Mid`", "mid-table"),
    ("whole-path-in-backticks-3", "insert into `{wb}.Sch.Mid` select x from src; insert into fin select x from {r}.`Sch`.`Mid`", "mid-table"),
    ("whole-path-in-backticks-read", "insert into {r}.`Mid` select x from src; insert into fin select x from `{wb}.Mid`", "mid-table"),
    # a column defined by an earlier statement under spelling w comes back under the same normalised name when the table is read with * (provider in use)
    ("created-col->star-read", "create table mid as select x as {w} from src; insert into fin select * from mid", "session-col"),
    # the configured default schema is an identifier like any other: bare `mid` under DEFAULT_SCHEMA=w is the table that `r.mid` names iff N(w) == N(r)
    ("default-schema->qualified-read", "insert into mid select x from src; insert into fin select x from {r}.mid", "default-schema"),
    ("qualified-write->default-schema", "insert into {r}.mid select x from src; insert into fin select x from mid", "default-schema"),
    ("created-table->star-read", "create table {w} as select x as col_w from src; create table {r} as select x as col_r from src; insert into fin select * from {w}", "session"),
]


def spellings(dialect):
    return [q.format(b) for q in QUOTE[dialect] for b in BASES]


def judge(kind, w, r, o):
    """did the implementation treat w and r as the same entity? plus the printed name it used for w"""
    src, tgt, mid, pairs = o["source"], o["target"], o["intermediate"], [tuple(p) for p in o["pairs"]]
    nw = N(w)
    if kind == "mid-table":
        chained = len(mid) == 1 and src == ["<default>.src"] and tgt == ["<default>.fin"]
        printed = [t for t in (mid or tgt) if t.endswith(".mid") or ".mid" not in t and t != "<default>.fin"]
        return chained, None
    if kind == "col-chain":
        chained = any(s.startswith("<default>.src.") and t.startswith("<default>.fin.") for s, t in pairs)
        return chained, None
    if kind == "qualifier":
        return pairs == [("<default>.src.x", "<default>.fin.x")], None
    if kind == "table-qualifier":
        return pairs == [(f"<default>.{nw}.x", "<default>.fin.x")], f"<default>.{nw}" in src
    if kind == "cte":
        return src == ["<default>.src"], None
    if kind == "rename":
        return tgt == ["<default>.fin2"], None
    if kind == "session-col":
        return ("<default>.src.x", f"<default>.fin.{nw}") in pairs, None
    if kind == "default-schema":
        return len(mid) == 1, None
    if kind == "session":
        cols = {t.rsplit(".", 1)[1] for s_, t in pairs if t.startswith("<default>.fin.")}
        # same entity: the second CREATE redefines it (anything goes); different entities: * expands to col_w only
        return (cols != {"col_w"}), None
    if kind == "selfloop":
        return src == tgt and len(src) == 1, (src + tgt)[0] == f"<default>.{nw}" if False else None
    raise AssertionError(kind)


def printed_ok(pos, w, o):
    """the entity written as w is printed under its N-image"""
    nw = N(w)
    tables = o["source"] + o["target"] + o["intermediate"]
    if pos in ("table", "target->self-read", "table->rename-operand", "table->qualifier"):
        return f"<default>.{nw}" in tables or (pos == "table->rename-operand" and "<default>.fin2" in tables)
    if pos == "schema":
        return f"{nw}.mid" in tables
    if pos == "db.schema":
        return f"{nw}.sch.mid" in tables
    if pos == "schema-of-db":
        return f"db.{nw}.mid" in tables
    if pos in ("col-alias->col", "col-list->col", "col->expr-arg", "col->qualified-col", "col-name->col", "col->unqualified-over-join"):
        return any(c == f"<default>.mid.{nw}" for p in o["paths"] for c in p)
    return True


def _eval(task):
    dialect, pos, tpl, kind, w, r = task
    sql = tpl.format(w=w, r=r, wb=w.strip("`"))
    prov = None
    if kind in ("session", "session-col"):
        from sqllineage.core.metadata.dummy import DummyMetaDataProvider

        prov = DummyMetaDataProvider({"main.unrelated": ["id"]})
    if kind == "session-col" and w != r:
        return {"skip": True}  # r does not occur in this template
    if kind == "default-schema":
        if quoted(w):
            return {"skip": True}  # the configured value is a bare string
        from sqllineage.config import SQLLineageConfig

        with SQLLineageConfig(DEFAULT_SCHEMA=w):
            o = observe.observe(sql, dialect, provider=prov, level="columns")
    else:
        o = observe.observe(sql, dialect, provider=prov, level="columns")
    if "exception" in o:
        if o["exception"] == "InvalidSyntaxException" and not observe.sqlfluff_accepts(sql.split(";")[0], dialect):
            return {"skip": True}
        return {"sql": sql, "bad": ["exception " + o["exception"]], "obs": o}
    same = N(w) == N(r)
    chained, _ = judge(kind, w, r, o)
    bad = []
    if kind == "session" and same:
        chained = same  # re-definition of one table: not constrained here
    if chained != same:
        bad.append("treated-as-same-entity-but-spellings-differ" if chained else "same-spelling-class-not-recognised")
    if not printed_ok(pos, w, o):
        bad.append("printed-name-is-not-the-normalised-spelling")
    if bad:
        return {"sql": sql, "bad": bad, "obs": {k: o[k] for k in ("source", "target", "intermediate", "pairs", "paths")}}
    return {"ok": True}


def model_checks(rep: Report):
    """== and hash of the public model classes agree with N-equality (all spelling pairs, all quote styles)"""
    from sqllineage.core.models import Column, Schema, Table

    sp = sorted({q.format(b) for qs in QUOTE.values() for q in qs for b in BASES})
    n = 0
    for a, b in itertools.product(sp, repeat=2):
        same = N(a) == N(b)
        for label, mk in (
            ("Schema", lambda s: Schema(s)),
            ("Table", lambda s: Table(s)),
            ("Table.schema-part", lambda s: Table(f"{s}.t")),
            ("Table(name, Schema)", lambda s: Table("t", Schema(s))),
            ("Column", lambda s: Column(s)),
        ):
            n += 1
            x, y = mk(a), mk(b)
            eq, heq = x == y, hash(x) == hash(y)
            if eq != same or (eq and not heq):
                rep.violation("model-equality-disagrees-with-normalisation", {"class": label, "a": a, "b": b}, {"equal": eq, "hash_equal": heq, "N_equal": same, "printed": [str(x), str(y)]})
            if str(x).split(".")[-1 if label in ("Schema", "Table", "Column") else 0] != N(a) and label in ("Schema", "Column"):
                rep.violation("model-printed-name-is-not-normalised", {"class": label, "a": a}, {"printed": str(x), "expected": N(a)})
    # equality, hash and printed name agree for columns whatever owns them (tables, sub-selects under one or two aliases)
    from sqllineage.core.models import SubQuery

    def owners():
        yield lambda: None
        for t in ("t1", "s1.t1", "T1"):
            yield lambda t=t: Table(t)
        for text in ("(select x from src)", "(select y from src)"):
            for alias in ("a", "b", None):
                yield lambda text=text, alias=alias: SubQuery(text, text, alias)

    cols = []
    for mk in owners():
        for name in ("x", "X", "y"):
            c = Column(name)
            o = mk()
            if o is not None:
                c.parent = o
            cols.append(c)
    # sub-selects: equal objects hash alike, whatever the layout of their text
    subs = [SubQuery(t, t, a) for t in ("(select x from src)", "(select x\n from src)", "(select  x from src)", "(select y from src)") for a in ("a", None)]
    for x, y in itertools.product(subs, repeat=2):
        n += 1
        if x == y and hash(x) != hash(y) or (len({x, y}) == 1) != (x == y):
            rep.violation("model-equality-disagrees-with-hash-or-printed-name", {"class": "SubQuery", "a": x.query_raw, "b": y.query_raw, "aliases": [x.alias, y.alias]},
                          {"equal": x == y, "hash_equal": hash(x) == hash(y), "set_size": len({x, y})})
    for x, y in itertools.product(cols, repeat=2):
        n += 1
        eq, heq, seq = x == y, hash(x) == hash(y), str(x) == str(y)
        if (eq and not heq) or (eq and not seq) or (len({x, y}) == 1) != eq:
            rep.violation("model-equality-disagrees-with-hash-or-printed-name", {"class": "Column", "a": str(x), "b": str(y), "owners": [str(x.parent), str(y.parent)]},
                          {"equal": eq, "hash_equal": heq, "printed_equal": seq, "set_size": len({x, y})})
    return n


def sig(dialect, pos, w, r, bad):
    return f"{pos}|{'q' if quoted(w) else 'u'}{case_class(w)}|{'q' if quoted(r) else 'u'}{case_class(r)}|{'+'.join(bad)}"


def case_class(sp):
    b = sp.strip('"`[]')
    return "l" if b.islower() else "U" if b.isupper() else "M"


def run(tier: str, opts: dict) -> int:
    rep = Report("C16", tier, "exploration")
    dialects = list(QUOTE)
    tasks = []
    for d in dialects:
        sp = spellings(d)
        for (pos, tpl, kind), w, r in itertools.product(TEMPLATES, sp, sp):
            if d == "bigquery" and pos in ("db.schema", "schema-of-db"):
                continue
            if pos.startswith("whole-path") and not (w.startswith("`") and "`{}`" in QUOTE[d]):
                continue
            tasks.append((d, pos, tpl, kind, w, r))
    res = pmap(_eval, tasks, chunk=24)
    n_model = model_checks(rep)
    skipped = 0
    nontrivial = set()
    known_sigs = {e["id"]: set(e.get("signatures", [])) for e in rep.findings.entries.values()}
    regen = opts.get("regen_pins")
    collected = {}
    for t, r in zip(tasks, res):
        d, pos, tpl, kind, w, rd = t
        if r.get("skip"):
            skipped += 1
            continue
        if quoted(w) or quoted(rd) or w != rd:
            nontrivial.add((pos, w, rd))
        if r.get("ok"):
            continue
        s = sig(d, pos, w, rd, r["bad"])
        if regen:
            collected.setdefault(s, []).append((d, r["sql"]))
            continue
        fid = next((f for f, sg in known_sigs.items() if s in sg), None)
        if fid:
            rep.known_finding(fid)
        else:
            rep.violation(r["bad"][0], {"dialect": d, "position": pos, "written_as": w, "read_as": rd, "sql": r["sql"], "signature": s}, {"bad": r["bad"], "obs": r["obs"]})
    if regen:
        import collections

        agg = collections.Counter()
        ex = {}
        for s, items in sorted(collected.items()):
            p = s.split("|")
            k = (p[0], p[3])
            agg[k] += len(items)
            ex.setdefault(k, []).append((s, items[0]))
        for k, n in sorted(agg.items()):
            print(n, k)
            for s, it in ex[k][:40]:
                print("     ", s.split("|")[1:3], it)
        return 0
    for t in tasks[:: max(1, len(tasks) // 5)][:5]:
        rep.sample({"dialect": t[0], "position": t[1], "sql": t[2].format(w=t[4], r=t[5], wb=t[4].strip("`"))})
    rep.coverage.update(
        evaluations=len(tasks) + n_model,
        distinct_nontrivial=len(nontrivial),
        rule=f"{len(TEMPLATES)} position-pair templates x every ordered pair of spellings ({len(BASES)} case patterns x quote styles of the dialect) "
        f"x dialects {dialects}; plus ==/hash of Schema, Table, Column over every spelling pair; non-trivial = a pair in which a quoted "
        "spelling takes part or the two spellings differ",
        exhaustive=True,
        rejected_by_dialect=skipped,
        model_object_pairs=n_model,
        positions=[t[0] for t in TEMPLATES],
    )
    rep.assumptions += [
        "reference normalisation N as stated in the property; known findings matched by exact signature "
        "(position pair, quoting and case class of both spellings, discrepancy kinds) listed in known_findings.json",
    ]
    return rep.finish()


def replay(body: dict, opts: dict) -> int:
    c = body["case"]
    if "class" in c:
        print("model-object case:", c)
        rep = Report("C16", "quick", "exploration")
        model_checks(rep)
        hit = [v for v in rep.violations if v["case"] == c]
        print("VIOLATION property=C16" if hit else "OK on replay")
        return 1 if hit else 0
    tpl, kind = next((t[1], t[2]) for t in TEMPLATES if t[0] == c["position"])
    r = _eval((c["dialect"], c["position"], tpl, kind, c["written_as"], c["read_as"]))
    print(json.dumps(r, indent=1)[:2000])
    if r.get("ok") or r.get("skip"):
        print("OK on replay")
        return 0
    s = sig(c["dialect"], c["position"], c["written_as"], c["read_as"], r["bad"])
    f = common.Findings("C16")
    fid = next((e["id"] for e in f.entries.values() if s in e.get("signatures", [])), None)
    if fid:
        print(f"KNOWN-FINDING: property=C16 {fid}")
        return 0
    print(f"VIOLATION property=C16 replay={opts.get('path', '<replayed>')}")
    return 1
