"""C04 - column lineage chains across statements.

E1 over scripts of 2-4 statements: chain shape in {line of 2/3/4, fan-in, fan-out, diamond} x producer pattern x per-edge
consumption pattern (all columns, subset, renamed by alias, through *, expression of two columns, unqualified column
over a join with a second table, qualified over a join) x statement kind of the producer (INSERT, CTAS, CREATE VIEW) x
metadata in {none, provider knowing the ultimate sources, provider non-empty but irrelevant}.
Oracle: the script's end-to-end pairs and table-level paths equal the relational composition of the per-statement
*reference* dataflows, statement k evaluated with knowledge K_k = provider + columns of tables written by statements
< k (attribution of unqualified columns uses K_k always; * expansion uses K_k only with a provider in use).
"""
from __future__ import annotations

import json

from vmc import common, explorer, observe, refsem, sqlgen
from vmc.c01 import _write_pins
from vmc.c05 import compose_paths
from vmc.common import HarnessError, Report, pmap

S = "main"
T = sqlgen.T


def base(n, alias=None):
    return {"k": "base", "t": T(n), "alias": alias, "as": False}


def col(q, n, a=None):
    return {"e": ["col", q, n], "alias": a}


def sel(items, rels, shape="one"):
    return {"items": items, "from": {"shape": shape, "rels": rels}, "where": None, "tail": None}


def stmt(kind, target, select):
    return {"kind": kind, "target": T(target), "collist": None, "q": {"ctes": [], "branches": [select], "ops": []}}


PRODUCE = ["cols2", "alias", "star", "expr", "cols3", "rev", "via_sq", "selfref"]
CONSUME = ["all", "subset", "renamed", "star", "expr", "unq_join", "qual_join", "star_join", "star_scalar_sub", "scalar_sub", "via_sq", "alias_shadow"]
SHAPES = ["line2", "line3", "line4", "fanin", "fanout", "diamond", "create_then_insert", "repeat_after_redefine"]
KINDS = ["insert", "ctas", "view"]
META = ["none", "knows-sources", "irrelevant", "lca"]  # lca: provider knowing the sources + LATERAL_COLUMN_ALIAS_REFERENCE on


def produce(pattern, kind, target, src, n0):
    """statement writing `target` from base table `src`; returns (stmt, names it defines or None when a star)"""
    c = [f"c{n0}", f"c{n0 + 1}", f"c{n0 + 2}"]
    if pattern == "cols2":
        return stmt(kind, target, sel([col(None, c[0]), col(None, c[1])], [base(src)])), c[:2]
    if pattern == "cols3":
        return stmt(kind, target, sel([col(None, c[0]), col(None, c[1]), col(None, c[2])], [base(src)])), c
    if pattern == "via_sq":  # through a derived table that every such statement calls sq, with an inner column called m
        inner = sel([col(None, c[0], "m")], [base(src)])
        d = {"k": "derived", "q": {"ctes": [], "branches": [inner], "ops": []}, "alias": "sq"}
        return stmt(kind, target, sel([col("sq", "m", "p" + c[0])], [d])), ["p" + c[0]]
    if pattern == "selfref":  # incremental load: the statement also reads the table it writes
        st = stmt("insert", target, sel([col(src, c[0]), col(src, c[1])], [base(src), base(target, "d")], "join"))
        return st, c[:2]
    if pattern == "rev":  # columns defined in non-alphabetical order
        return stmt(kind, target, sel([col(None, c[1]), col(None, c[0])], [base(src)])), [c[1], c[0]]
    if pattern == "alias":
        return stmt(kind, target, sel([col(None, c[0], "x" + c[0]), col(None, c[1])], [base(src)])), ["x" + c[0], c[1]]
    if pattern == "star":
        return stmt(kind, target, sel([{"e": ["star", None], "alias": None}], [base(src)])), None
    return stmt(kind, target, sel([{"e": ["arith", ["col", None, c[0]], ["col", None, c[1]]], "alias": "e" + c[0]}, col(None, c[1])], [base(src)])), ["e" + c[0], c[1]]


def consume(pattern, kind, target, srcs, names, other):
    """statement writing `target` from intermediate table(s) srcs (names[i] = columns srcs[i] defines, or None)"""
    m = srcs[0]
    nm = names[0] or ["c1", "c2"]
    if len(srcs) == 2:
        n2 = names[1] or ["c5", "c6"]
        rels = [base(srcs[0]), base(srcs[1])]
        if pattern in ("star", "star_join"):
            return stmt(kind, target, sel([{"e": ["star", None], "alias": None}], rels, "join"))
        if pattern in ("unq_join", "subset"):
            return stmt(kind, target, sel([col(None, nm[0]), col(None, n2[-1])], rels, "join"))
        if pattern == "expr":
            return stmt(kind, target, sel([{"e": ["arith", ["col", srcs[0], nm[0]], ["col", srcs[1], n2[0]]], "alias": "ee"}], rels, "join"))
        return stmt(kind, target, sel([col(srcs[0], nm[0]), col(srcs[1], n2[-1], "y" + n2[-1] if pattern == "renamed" else None)], rels, "join"))
    if pattern == "via_sq":
        inner = sel([col(None, nm[-1], "m")], [base(m)])
        d = {"k": "derived", "q": {"ctes": [], "branches": [inner], "ops": []}, "alias": "sq"}
        return stmt(kind, target, sel([col("sq", "m", "q" + nm[-1])], [d]))
    if pattern == "alias_shadow":
        # the first item's alias is the name of another column of the intermediate table; the second item reads that name:
        # the table's own column (known from the session) - with lateral alias references on, still the table's column
        return stmt(kind, target, sel([col(None, nm[-1], nm[0]), {"e": ["arith", ["col", None, nm[0]], ["col", None, nm[-1]]], "alias": "yy"}], [base(m)]))
    if pattern == "all":
        return stmt(kind, target, sel([col(None, n) for n in nm], [base(m)]))
    if pattern == "subset":
        return stmt(kind, target, sel([col(None, nm[0])], [base(m)]))
    if pattern == "renamed":
        return stmt(kind, target, sel([col(None, nm[0], "y" + nm[0])], [base(m)]))
    if pattern == "star":
        return stmt(kind, target, sel([{"e": ["star", None], "alias": None}], [base(m)]))
    if pattern == "expr":
        return stmt(kind, target, sel([{"e": ["arith", ["col", None, nm[0]], ["col", None, nm[-1]]], "alias": "ee"}], [base(m)]))
    if pattern in ("star_scalar_sub", "scalar_sub"):
        sub = {"ctes": [], "branches": [sel([{"e": ["func", [["col", None, "z9"]]], "alias": None}], [base(other)])], "ops": []}
        first = {"e": ["star", None], "alias": None} if pattern == "star_scalar_sub" else col(None, nm[0])
        return stmt(kind, target, sel([first, {"e": ["subq", sub], "alias": "sq"}], [base(m)]))
    if pattern == "unq_join":
        return stmt(kind, target, sel([col(None, nm[0]), col(None, "z9")], [base(m), base(other)], "join"))
    if pattern == "qual_join":
        return stmt(kind, target, sel([col(m, nm[0]), col(other, "z9")], [base(m), base(other)], "join"))
    if pattern == "star_join":
        return stmt(kind, target, sel([{"e": ["star", None], "alias": None}], [base(m), base(other)], "join"))
    raise AssertionError(pattern)


def gen_script(ch):
    shape = ch.pick("shape", SHAPES)
    meta = ch.pick("meta", META)
    kinds = lambda i: ch.pick(f"kind[{i}]", KINDS)  # noqa: E731
    pp = lambda i: ch.pick(f"produce[{i}]", PRODUCE)  # noqa: E731
    cp = lambda i: ch.pick(f"consume[{i}]", CONSUME)  # noqa: E731
    stmts = []
    if shape in ("line2", "line3", "line4"):
        n = int(shape[-1])
        st, names = produce(pp(0), kinds(0), "m1", "s1", 1)
        stmts.append(st)
        prev, prev_names = "m1", names
        for i in range(1, n):
            tgt = "fin" if i == n - 1 else f"m{i + 1}"
            st = consume(cp(i), kinds(i), tgt, [prev], [prev_names], f"o{i}")
            stmts.append(st)
            prev, prev_names = tgt, refsem.output_names(st, {refsem.fq(T(prev)): prev_names} if prev_names else {}) or None
    elif shape == "create_then_insert":
        a, na = produce(pp(0), kinds(0), "m1", "s1", 1)
        if not na or len(na) not in (2, 3):
            a, na = produce("cols2", a["kind"], "m1", "s1", 1)  # the later INSERT must have the arity of the table
        ins, _ = produce("cols3" if na and len(na) == 3 else "cols2", "insert", "m1", "s2", 5)
        stmts += [a, ins, consume(cp(2), kinds(2), "fin", ["m1"], [na], "o1")]
    elif shape == "repeat_after_redefine":
        # stage defined, a view over it, stage redefined with more columns, the *same* view statement again, then a reader
        a, na = produce("cols2", "ctas", "m1", "s1", 1)
        view = consume("star", "view", "v1", ["m1"], [na], "o1")
        b, nb = produce("cols3", "ctas", "m1", "s1", 1)
        stmts += [a, view, b, view, consume(cp(4), kinds(4), "fin", ["v1"], [nb], "o2")]
    elif shape == "fanin":
        a, na = produce(pp(0), kinds(0), "m1", "s1", 1)
        b, nb = produce(pp(1), kinds(1), "m2", "s2", 5)
        stmts += [a, b, consume(cp(2), kinds(2), "fin", ["m1", "m2"], [na, nb], "o1")]
    elif shape == "fanout":
        a, na = produce(pp(0), kinds(0), "m1", "s1", 1)
        stmts += [a, consume(cp(1), kinds(1), "fin1", ["m1"], [na], "o1"), consume(cp(2), kinds(2), "fin2", ["m1"], [na], "o2")]
    else:  # diamond
        a, na = produce(pp(0), kinds(0), "m1", "s1", 1)
        b, nb = produce(pp(1), kinds(1), "m2", "s1", 1)
        nb2 = nb
        stmts += [a, b, consume(cp(2), kinds(2), "fin", ["m1", "m2"], [na, nb2], "o1")]
    return {"shape": shape, "meta": meta, "stmts": stmts}


def provider_map(case):
    if case["meta"] == "none":
        return {}
    if case["meta"] == "lca":
        case = dict(case, meta="knows-sources")
    if case["meta"] == "irrelevant":
        return {f"{S}.unrelated": ["id", "c1"]}
    K = {}
    for st in case["stmts"]:
        for t in sqlgen.base_tables(st):
            n = t["n"]
            if n.startswith("s"):
                K[f"{S}.{n}"] = ["c1", "c2", "c3", "c4", "id"] if n == "s1" else ["c5", "c6", "c7", "id"]
            if n.startswith("o"):
                K[f"{S}.{n}"] = ["z9", "id"]
    return K


def reference(case):
    """(pairs, table-level paths as edges) by composing the per-statement reference dataflows"""
    K = dict(provider_map(case))
    provider_in_use = bool(K)
    edges = []
    refsem.LCA_ON[0] = case["meta"] == "lca"
    try:
        for st in case["stmts"]:
            pairs = refsem.columns(st, K, S, Kstar=(K if provider_in_use else {}))
            edges.append([[a, b] for a, b in pairs])
            names = refsem.output_names(st, K, S, Kstar=(K if provider_in_use else {}))
            if names:
                K[refsem.fq(st["target"], S)] = names
    finally:
        refsem.LCA_ON[0] = False
    return compose_paths(edges), {tuple(e) for es in edges for e in es}


def table_nodes(path):
    return [c for c in path if c.startswith("?") or c == "<none>" or c.count(".") >= 2]


def _eval(case):
    from sqllineage.core.metadata.dummy import DummyMetaDataProvider

    script = ";\n".join(sqlgen.render(st, sqlgen.R(qualify=S)) for st in case["stmts"])
    K = provider_map(case)
    prov = DummyMetaDataProvider({k: list(v) for k, v in K.items()}) if K else None
    if case["meta"] == "lca":
        from sqllineage.config import SQLLineageConfig

        with SQLLineageConfig(LATERAL_COLUMN_ALIAS_REFERENCE=True):
            o = observe.observe(script, "ansi", provider=prov, level="columns")
    else:
        o = observe.observe(script, "ansi", provider=prov, level="columns")
    if "exception" in o:
        return {"script": script, "bad": "exception", "obs": o}
    r = _judge(case, script, o)
    if K and case["meta"] != "lca":
        # the other bundled provider, loaded with the same knowledge (in-memory sqlite, one attached database per schema), must give the same answer
        from vmc import c13

        o2 = observe.observe(script, "ansi", provider=c13.make_provider("sqlalchemy", K), level="columns")
        if o2 != o:
            r["provider_diff"] = {"dummy": {k: o.get(k) for k in ("pairs", "source", "target", "intermediate")}, "sqlalchemy": {k: o2.get(k) for k in ("pairs", "source", "target", "intermediate", "exception")}}
    return r


def _judge(case, script, o):
    exp_pairs, exp_edges = reference(case)
    got_pairs = {tuple(p) for p in o["pairs"]}
    got_edges = set()
    for p in o["paths"]:
        t = table_nodes(p)
        got_edges.update(zip(t, t[1:]))
    bad = []
    if got_pairs != exp_pairs:
        bad.append("pairs")
    if got_edges != exp_edges and not bad:
        bad.append("paths-do-not-run-through-the-intermediate-columns")
    if not bad:
        return {"script": script, "ok": True, "n": len(exp_pairs)}
    return {"script": script, "bad": "+".join(bad), "obs": {"pairs": sorted(got_pairs), "edges": sorted(got_edges)},
            "expected": {"pairs": sorted(exp_pairs), "edges": sorted(exp_edges)},
            "delta": {"missing": sorted(exp_pairs - got_pairs), "extra": sorted(got_pairs - exp_pairs)}}


def classify(case, r):
    d = r["delta"]
    sh, meta = case["shape"], case["meta"]
    pats = set()
    for st in case["stmts"]:
        pats |= sqlgen.features(st)
    txt = r["script"]
    if any(e[0] == "<none>" for e in d["extra"]) and "item:star" in pats:
        return "F-C02-star-over-subquery-and-base-table" if "JOIN" not in txt else "F-C13-wildcard-lost-under-partial-metadata"
    if sum(1 for st in case["stmts"] if "from:join" in sqlgen.features(st)) >= 1 and any(x[0].startswith("?") for x in d["missing"] + d["extra"]):
        return "F-C04-unresolved-columns-of-equal-name-merge"
    if "item:star" in pats and meta != "none":
        return "F-C11-star-over-tables-sharing-a-column-name"
    if sum(1 for st in case["stmts"] if "from:join" in sqlgen.features(st)) >= 2:
        # two statements read an unqualified column of the same name over different joins: the two unresolved columns are
        # one graph node, so whichever resolution comes first (graph, then metadata) is applied to both
        return "F-C04-unresolved-columns-of-equal-name-merge"
    return None


def run(tier: str, opts: dict) -> int:
    rep = Report("C04", tier, "exploration")
    D = int(opts.get("D", 3 if tier == "quick" else 4))
    cases = []
    seen = set()
    n_exec = 0
    for ch, c in explorer.explore(gen_script, D):
        n_exec += 1
        key = json.dumps(c, sort_keys=True)
        if key not in seen:
            seen.add(key)
            cases.append(c)
    regen = opts.get("regen_pins")
    res = pmap(_eval, cases, chunk=8)
    new_pins, unclassified = {}, []
    nontrivial = 0
    shapes = {}
    for c, r in zip(cases, res):
        shapes[c["shape"]] = shapes.get(c["shape"], 0) + 1
        if r.get("n", 0) >= 2 or not r.get("ok"):
            nontrivial += 1
        if r.get("provider_diff") and not regen:
            rep.violation("provider-kinds-disagree", {"script": r["script"], "case": c}, r["provider_diff"])
        if r.get("ok"):
            continue
        key = f"{c['meta']}|{r['script']}"
        dg = common.digest(r["obs"])
        if regen:
            fid = classify(c, r) if r["bad"] != "exception" else None
            if fid is None:
                unclassified.append((key.replace("\n", " "), r))
            else:
                new_pins[key] = [fid, dg]
            continue
        fid = rep.findings.pinned(key, dg)
        if fid:
            rep.known_finding(fid)
        else:
            rep.violation(r["bad"], {"script": r["script"], "case": c}, {k: r[k] for k in ("obs", "expected", "delta") if k in r})
    if regen:
        return _write_pins("C04", new_pins, unclassified, replace=(tier == "thorough"))
    for c, r in list(zip(cases, res))[:: max(1, len(cases) // 5)][:5]:
        rep.sample({"script": r["script"], "shape": c["shape"], "metadata": c["meta"]})
    rep.coverage.update(
        evaluations=len(cases),
        distinct_nontrivial=nontrivial,
        generator_executions=n_exec,
        rule=f"scripts of 2-4 statements: shape {SHAPES} x producer pattern {PRODUCE} x consumption pattern per edge {CONSUME} x producer kind {KINDS} x "
        f"metadata {META}; all choice sequences with <= {D} deviations from a 2-statement line; non-trivial = >= 2 expected end-to-end pairs or a disagreement",
        exhaustive=True,
        bound_completed={"deviations": D},
        by_shape=shapes,
    )
    rep.assumptions += [
        "reference: relational composition of per-statement reference dataflows with knowledge K_k (DESIGN.md C04)",
        "a table is defined by one statement; the only re-write explored is a later INSERT without column list into it (positions named by the session's columns when a provider is in use)",
    ]
    return rep.finish()


def replay(body: dict, opts: dict) -> int:
    c = body["case"]["case"]
    r = _eval(c)
    print(json.dumps(r, indent=1)[:3500])
    if r.get("provider_diff"):
        print(f"VIOLATION property=C04 replay={opts.get('path', '<replayed>')}")
        return 1
    if r.get("ok"):
        print("OK on replay")
        return 0
    fid = common.Findings("C04").pinned(f"{c['meta']}|{r['script']}", common.digest(r["obs"])) if "obs" in r else None
    if fid:
        print(f"KNOWN-FINDING: property=C04 {fid}")
        return 0
    print(f"VIOLATION property=C04 replay={opts.get('path', '<replayed>')}")
    return 1
