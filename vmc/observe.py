"""E7 - implementation adapter: run the real LineageRunner and return a canonical, JSON-able record of
*public* results only. Anonymous subquery names (subquery_<hash>) are replaced by subquery#i in order of
first appearance; nothing private is read.
"""
from __future__ import annotations

import re
import warnings

_SQ = re.compile(r"subquery_-?\d+")


class Anon:
    def __init__(self):
        self.m = {}

    def __call__(self, s: str) -> str:
        def rep(mo):
            k = mo.group(0)
            if k not in self.m:
                self.m[k] = f"subquery#{len(self.m)}"
            return self.m[k]

        return _SQ.sub(rep, s)


_PLAIN = re.compile(r"^[A-Za-z_][A-Za-z0-9_$#@]*$|^\*$")
EXPR_PLACEHOLDER = [False]  # C07: the display name of an un-aliased expression column follows the expression's text


def col_str(c, anon) -> str:
    """resolved column -> 'owner.col'; unresolved -> '?col[cand|cand]'"""
    if EXPR_PLACEHOLDER[0] and not _PLAIN.match(c.raw_name):
        return anon(f"{c.parent}.<expr>") if c.parent is not None else "<expr>"
    if c.parent is not None or len(c.parent_candidates) == 0:
        return anon(str(c))
    return "?" + c.raw_name + "[" + "|".join(sorted(anon(str(p)) for p in c.parent_candidates)) + "]"


def exc_record(e) -> dict:
    return {"exception": type(e).__name__, "mro": [c.__name__ for c in type(e).__mro__], "message": str(e)[:300]}


def observe(sql, dialect="ansi", provider=None, silent=False, level="full", verbose=False) -> dict:
    """level: 'tables' | 'columns' | 'full' (adds cytoscape exports and the text summary)"""
    from sqllineage.runner import LineageRunner

    anon = Anon()
    out: dict = {}
    with warnings.catch_warnings(record=True) as w:
        warnings.simplefilter("always")
        try:
            kw = {"dialect": dialect, "silent_mode": silent, "verbose": verbose}
            if provider is not None:
                kw["metadata_provider"] = provider
            r = LineageRunner(sql, **kw)
            out["statements"] = len(r.statements())
            out["source"] = [str(t) for t in r.source_tables]
            out["target"] = [str(t) for t in r.target_tables]
            out["intermediate"] = [str(t) for t in r.intermediate_tables]
            if level in ("columns", "full"):
                paths = r.get_column_lineage()
                out["pairs"] = sorted({(col_str(p[0], anon), col_str(p[-1], anon)) if len(p) > 1 else ("<none>", col_str(p[0], anon)) for p in paths})
                out["pairs"] = [list(x) for x in out["pairs"]]
                out["paths"] = sorted([col_str(c, anon) for c in p] for p in paths)
            if level == "full":
                from sqllineage.utils.constant import LineageLevel

                out["cyto_table"] = cyto_canon(r.to_cytoscape())
                out["cyto_column"] = cyto_canon([_anon_deep(x, anon) for x in r.to_cytoscape(LineageLevel.COLUMN)])
                out["summary"] = anon(str(r))
        except Exception as e:  # noqa - the outcome of the analysis
            out = exc_record(e)
    out = canon_anon(out)
    out["warnings"] = sorted({f"{x.category.__name__}: {str(x.message)[:120]}" for x in w if x.category is not DeprecationWarning})
    return out


def cyto_canon(lst):
    """export normal form (DESIGN.md section 3): set of node records, multiset of (source, target) edges; the order of
    the list and the synthetic edge ids e<i> are presentation"""
    nodes = [d["data"] for d in lst if "source" not in d["data"]]
    edges = [[d["data"]["source"], d["data"]["target"]] for d in lst if "source" in d["data"]]
    return {"nodes": nodes, "edges": edges}


def _cyto_sort(c):
    import json

    return {"nodes": sorted(c["nodes"], key=lambda n: json.dumps(n, sort_keys=True)), "edges": sorted(c["edges"])}


def canon_anon(out: dict) -> dict:
    """anonymous subquery names are generated from a hash of the subquery text: rename them canonically - the
    assignment of subquery#i that gives the smallest serialisation, so that the naming depends on the structure
    of the result and on nothing else (all k! assignments tried for k <= 5)"""
    import itertools
    import json

    dump = json.dumps(out, sort_keys=True)
    names = sorted(set(re.findall(r"subquery#\d+", dump)))
    if not names or len(names) > 5:
        return _resort(out)
    best = None
    for perm in itertools.permutations(range(len(names))):
        m = {n: f"subquery@{perm[i]}" for i, n in enumerate(names)}
        d = re.sub(r"subquery#\d+", lambda mo: m[mo.group(0)], dump)
        # lists that the runner sorts by printed name must be re-sorted under the new names
        cand = _resort(json.loads(d))
        key = json.dumps(cand, sort_keys=True)
        if best is None or key < best[0]:
            best = (key, cand)
    return json.loads(best[0].replace("subquery@", "subquery#"))


def _resort(o: dict) -> dict:
    for k in ("pairs", "paths"):
        if k in o:
            o[k] = sorted(o[k])
    for k in ("cyto_table", "cyto_column"):
        if k in o:
            o[k] = _cyto_sort(o[k])
    return o


def _anon_deep(x, anon):
    if isinstance(x, str):
        return anon(x)
    if isinstance(x, dict):
        return {k: _anon_deep(v, anon) for k, v in x.items()}
    if isinstance(x, list):
        return [_anon_deep(v, anon) for v in x]
    return x


def sqlfluff_accepts(sql: str, dialect: str) -> bool:
    """the trusted domain filter: does sqlfluff itself parse the text without lex/parse violations?"""
    from sqlfluff.core import FluffConfig, Linter, SQLLexError, SQLParseError

    cfg = FluffConfig.from_path(path=".", overrides={"dialect": dialect})
    try:
        parsed = Linter(config=cfg).parse_string(sql)
    except Exception:  # noqa
        return False
    if parsed.root_variant() is None:
        return False
    return not any(isinstance(v, (SQLLexError, SQLParseError)) for v in parsed.violations)
