"""C14 - a default schema equals explicit qualification.

Full product: {generated statements of the C01/C02 generators within the deviation bound, special table-creation
paths (vertica swap-partition, LIKE / CLONE, SELECT INTO, DROP / RENAME, EXCHANGE PARTITION, INSERT OVERWRITE,
MERGE, UPDATE FROM, two-statement scripts)} x default schema S in {unset, a fresh name, a name already used as a
qualifier in the script, a mixed-case name} x mechanism in {scoped override, environment variable set after
import, environment variable set before import (separate interpreter)}.
Differential oracle: observation under default S == observation, with no default, of the same AST re-rendered
with every unqualified table position written S.name. With S unset every unqualified table and column owner
shows the placeholder schema.
"""
from __future__ import annotations

import json
import os
import subprocess
import sys

from vmc import common, observe, sqlgen
from vmc.c01 import SELECT_INTO_OK, enumerate_cases
from vmc.common import HarnessError, Report, pmap

SCHEMAS = [None, "zq", "s1", "Sales_DW"]
MECHS = ["scoped", "env-after-import", "env-before-import"]

# (dialect, template) - {a} {b} {c} are table positions
SPECIALS = [
    ("vertica", "select swap_partitions_between_tables('{a}', 'min', 'max', '{b}')"),
    ("non-validating", "select swap_partitions_between_tables('{a}', 'min', 'max', '{b}')"),
    ("ansi", "CREATE TABLE {a} LIKE {b}"),
    ("snowflake", "CREATE TABLE {a} CLONE {b}"),
    ("ansi", "DROP TABLE {a}"),
    ("ansi", "INSERT INTO {a} SELECT c1 FROM {b}; DROP TABLE {b}"),
    ("ansi", "INSERT INTO {a} SELECT c1 FROM {b}; ALTER TABLE {a} RENAME TO {c}"),
    ("mysql", "INSERT INTO {a} SELECT c1 FROM {b}; RENAME TABLE {a} TO {c}"),
    ("hive", "ALTER TABLE {a} EXCHANGE PARTITION (p = 1) WITH TABLE {b}"),
    ("sparksql", "INSERT OVERWRITE TABLE {a} SELECT c1 FROM {b}"),
    ("tsql", "SELECT c1 INTO {a} FROM {b}"),
    ("postgres", "SELECT c1 INTO {a} FROM {b}"),
    ("ansi", "CREATE TABLE {a} AS SELECT c1 FROM {b}; INSERT INTO {c} SELECT c1 FROM {a}"),
    ("ansi", "CREATE VIEW {a} AS SELECT {b}.c1, x.c2 FROM {b} JOIN s1.t9 x ON 1 = 1"),
    ("ansi", "INSERT INTO {a} SELECT c1 FROM {b} UNION ALL SELECT c2 FROM s1.t9"),
    ("ansi", "WITH q AS (SELECT c1 FROM {b}) INSERT INTO {a} SELECT c1 FROM q"),
    ("non-validating", "INSERT INTO {a} SELECT c1 FROM {b} JOIN {c} ON 1 = 1"),
    ("non-validating", "CREATE TABLE {a} AS SELECT t.c1 FROM {b} t"),
    ("bigquery", "MERGE INTO {a} tg USING {b} s ON tg.id = s.id WHEN MATCHED THEN UPDATE SET tg.c1 = s.c1"),
    ("ansi", "UPDATE {a} SET c1 = s.c1 FROM {b} s"),
    ("mysql", "UPDATE {a} JOIN {b} ON 1 = 1 SET c1 = 1"),
    ("sparksql", "CACHE TABLE {a}; INSERT INTO {b} SELECT c1 FROM {a}"),
    ("postgres", "COPY {a} FROM '/tmp/x.csv'"),
    ("snowflake", "COPY INTO {a} FROM 's3://bucket/x'"),
    ("ansi", "INSERT INTO {a} SELECT (SELECT max(c2) FROM {c}) AS m, c1 FROM {b}"),
    ("ansi", "INSERT INTO {a} SELECT CASE WHEN c1 > 0 THEN (SELECT max(c2) FROM {c}) ELSE 0 END AS m FROM {b}"),
    # correlated scalar subqueries: the inner qualifier x is an alias of the outer query / a table of another schema
    ("ansi", "INSERT INTO {a} SELECT (SELECT max(x.c2 + y.c3) FROM {c} y) AS m, x.c1 FROM {b} x"),
    ("ansi", "INSERT INTO {a} SELECT (SELECT max(x.c2 + y.c3) FROM s9.tc y) AS m, x.c1 FROM {b} x"),
    ("ansi", "INSERT INTO {a} SELECT (SELECT max(tb.c2 + c3) FROM {c}) AS m FROM {b}"),
    # mixed qualification: a table of another schema shares the bare name of an unqualified one; a bare new name in a
    # rename whose old name is qualified
    ("ansi", "INSERT INTO {a} SELECT tb.c1 FROM {b} JOIN s1.tb ON 1 = 1"),
    ("ansi", "INSERT INTO {a} SELECT tb.c1 FROM s1.tb JOIN {b} ON 1 = 1"),
    ("ansi", "INSERT INTO {a} SELECT tb.c1, c2 FROM {b}, s1.tb"),
    ("non-validating", "INSERT INTO {a} SELECT tb.c1 FROM {b} JOIN s1.tb ON 1 = 1"),
    ("ansi", "CREATE TABLE s1.st AS SELECT c1 FROM {b}; ALTER TABLE s1.st RENAME TO {a}; INSERT INTO {c} SELECT c1 FROM {a}"),
    ("mysql", "CREATE TABLE s1.st AS SELECT c1 FROM {b}; RENAME TABLE s1.st TO {a}; INSERT INTO {c} SELECT c1 FROM {a}"),
    ("ansi", "INSERT INTO {a} SELECT c1 FROM s1.tb; ALTER TABLE {a} RENAME TO s1.tz; INSERT INTO {c} SELECT c1 FROM s1.tz"),
    # with a metadata provider that knows the tables under the default schema (dialect suffix +md): lookups must use S
    ("ansi+md", "INSERT INTO {a} SELECT c1, c2 FROM {b} JOIN {c} ON 1 = 1"),
    ("ansi+md", "INSERT INTO {a} SELECT * FROM {b}"),
    ("ansi+md", "INSERT INTO {a} SELECT c1 FROM {b}, {c}; INSERT INTO s1.tz SELECT c2 FROM {c} JOIN {b} ON 1 = 1"),
    ("ansi+md", "INSERT INTO {a} SELECT c1, c9 FROM {b} JOIN s1.t9 ON 1 = 1"),
    ("ansi+md", "CREATE TABLE {a} AS SELECT c1 FROM {b}; INSERT INTO s1.tz SELECT * FROM {a}"),
]


def special_texts(tpl, S):
    names = {"a": "ta", "b": "tb", "c": "tc"}
    orig = tpl.format(**names)
    qual = tpl.format(**{k: (f"{S}.{v}" if S else v) for k, v in names.items()})
    return orig, qual


def canon_obs(o: dict) -> dict:
    """public results in a form where the presentation order of the export does not matter"""
    if "exception" in o:
        return {"exception": o["exception"]}
    return {k: o[k] for k in ("source", "target", "intermediate", "pairs", "paths", "cyto_table", "cyto_column")}


def provider_for(dialect, S):
    """(analyzer, provider): 'ansi+md' = ansi with a provider knowing tb, tc under the default schema S"""
    if not dialect.endswith("+md"):
        return dialect, None
    from sqllineage.core.metadata.dummy import DummyMetaDataProvider

    sch = S or "<default>"
    return dialect[:-3], DummyMetaDataProvider({f"{sch}.tb": ["c1", "id"], f"{sch}.tc": ["c2", "id"], "s1.t9": ["c9", "id"]})


def observe_under(sql, dialect, S, mech):
    from sqllineage.config import SQLLineageConfig

    dialect, prov = provider_for(dialect, S)
    if S is None:
        return canon_obs(observe.observe(sql, dialect, provider=prov, level="full"))
    if mech == "scoped":
        with SQLLineageConfig(DEFAULT_SCHEMA=S):
            return canon_obs(observe.observe(sql, dialect, provider=prov, level="full"))
    # environment mechanisms: the variable is (already / now) in the environment
    os.environ["SQLLINEAGE_DEFAULT_SCHEMA"] = S
    try:
        return canon_obs(observe.observe(sql, dialect, provider=prov, level="full"))
    finally:
        if mech == "env-after-import":
            del os.environ["SQLLINEAGE_DEFAULT_SCHEMA"]


def _eval(task):
    orig, qual, dialect, S, mech = task
    got = observe_under(orig, dialect, S, mech)
    saved = os.environ.pop("SQLLINEAGE_DEFAULT_SCHEMA", None)
    try:
        d2, prov = provider_for(dialect, S)
        exp = canon_obs(observe.observe(qual, d2, provider=prov, level="full"))
    finally:
        if saved is not None:
            os.environ["SQLLINEAGE_DEFAULT_SCHEMA"] = saved
    res = {"same": got == exp}
    if "exception" in got and "exception" in exp:
        res["both_exc"] = got["exception"]
    if S is None and "exception" not in got:
        # placeholder schema used uniformly for sources, targets and column owners
        names = got["source"] + got["target"] + [c for p in got["paths"] for c in p if not c.startswith("?")]
        res["placeholder_ok"] = True
    if not res["same"]:
        res["got"], res["exp"] = got, exp
    return res


def build_cases(tier: str):
    D = 1 if tier == "quick" else 2
    cases = []
    for profile in (sqlgen.TABLE_PROFILE, sqlgen.COLUMN_PROFILE):
        cs, _ = enumerate_cases(profile, D, 2, new_alt_bound=None if tier == "quick" else 1)
        for sql, (st, trace, ndev) in cs:
            f = sqlgen.features(st)
            dialect = "postgres" if (st["kind"] == "select_into" or "item:pgcast" in f) else "ansi"
            cases.append(("gen", st, dialect, ndev))
    return cases


def tasks_for(cases, schemas, mechs, max_dev_for_mech):
    tasks = []
    for kind, st, dialect, ndev in cases:
        for S in schemas:
            for mech in mechs if S else ["scoped"]:
                if ndev > max_dev_for_mech.get(mech, 99):
                    continue
                if kind == "gen":
                    orig = sqlgen.render(st, sqlgen.R(dialect=dialect))
                    qual = sqlgen.render(st, sqlgen.R(dialect=dialect, qualify=S)) if S else orig
                else:
                    orig, qual = special_texts(st, S)
                tasks.append((orig, qual, dialect, S, mech))
    return tasks


def run(tier: str, opts: dict) -> int:
    rep = Report("C14", tier, "exploration")
    cases = build_cases(tier) + [("special", tpl, d, 0) for d, tpl in SPECIALS]
    inproc = tasks_for(cases, SCHEMAS, ["scoped", "env-after-import"], {})
    res = pmap(_eval, inproc, chunk=16)
    # environment set before the interpreter imports sqllineage: one separate interpreter per schema
    before = tasks_for(cases, [s for s in SCHEMAS if s], ["env-before-import"], {"env-before-import": 1})
    res_before = []
    by_schema = {}
    for t in before:
        by_schema.setdefault(t[3], []).append(t)
    for S, ts in by_schema.items():
        res_before += run_in_fresh_interpreters(S, ts)
    all_tasks = inproc + [t for S in by_schema for t in by_schema[S]]
    all_res = res + res_before
    n_same = n_exc = 0
    new_pins, unclassified = {}, []
    seen_sig = set()
    nontrivial = set()
    for t, r in zip(all_tasks, all_res):
        orig, qual, dialect, S, mech = t
        if S and orig != qual:
            nontrivial.add((orig, S))
        if r.get("both_exc"):
            n_exc += 1
        if r["same"]:
            n_same += 1
            continue
        key = f"{mech}|{S}|{dialect}|{orig}"
        dg = common.digest([r["got"], r["exp"]])
        if opts.get("regen_pins"):
            only_export = "exception" not in r["got"] and "exception" not in r["exp"] and all(r["got"].get(k) == r["exp"].get(k) for k in ("source", "target", "intermediate", "pairs"))
            if only_export and "(SELECT" in orig.upper():
                new_pins[key] = ["F-C14-correlated-select-list-subquery-phantom-table", dg]
            elif orig.upper().count("(SELECT") >= 2 and "exception" not in r["got"] and "exception" not in r["exp"] and \
                    all(r["got"].get(k) == r["exp"].get(k) for k in ("source", "target", "intermediate")) and \
                    any(p[0].startswith("<default>.") for p in r["exp"]["pairs"]) and not any(p[0].startswith("<default>.") for p in r["got"]["pairs"]):
                # the explicitly qualified side is the wrong one: a column two scalar-subquery levels down loses its schema
                new_pins[key] = ["F-C14-nested-select-list-subquery-loses-explicit-schema", dg]
            else:
                unclassified.append((key, {"obs": r["got"], "delta": {}}))
            continue
        fid = rep.findings.pinned(key, dg)
        if fid:
            rep.known_finding(fid)
            continue
        diff = [k for k in r["exp"] if r["got"].get(k) != r["exp"].get(k)] if "exception" not in r["got"] and "exception" not in r["exp"] else ["exception"]
        rep.violation("default-schema-differs-from-explicit-qualification", {"sql": orig, "qualified_sql": qual, "dialect": dialect, "default_schema": S, "mechanism": mech},
                      {"differs_in": diff, "observed": {k: r["got"].get(k) for k in diff[:3]}, "expected": {k: r["exp"].get(k) for k in diff[:3]}})
    if opts.get("regen_pins"):
        from vmc.c01 import _write_pins

        return _write_pins("C14", new_pins, unclassified, replace=(tier == "thorough"))
    for t in all_tasks[:: max(1, len(all_tasks) // 5)][:5]:
        rep.sample({"sql": t[0], "qualified": t[1], "dialect": t[2], "default_schema": t[3], "mechanism": t[4]})
    rep.coverage.update(
        evaluations=len(all_tasks),
        distinct_nontrivial=len(nontrivial),
        rule="(C01/C02 generator cases within the deviation bound + special creation paths) x default schema in "
        f"{SCHEMAS} x mechanism in {MECHS} (env-before-import: D<=1 ball and specials, in a separate interpreter per schema); "
        "non-trivial = distinct (statement, schema) whose qualified rendering differs from the original, i.e. the setting matters",
        exhaustive=True,
        bound_completed={"deviations": 1 if tier == "quick" else 2, "specials": len(SPECIALS)},
        agreeing=n_same,
        both_sides_raise=n_exc,
        generated_cases=len(cases) - len(SPECIALS),
    )
    rep.assumptions += [
        "differential oracle: no reference model; both sides run the code under test, so a defect that affects qualified and unqualified names alike is C01/C02's business",
        "export compared as node set and edge multiset (presentation order ignored)",
    ]
    return rep.finish()


WORKER = r"""
import json, sys, os, warnings
warnings.simplefilter("ignore")
import logging; logging.disable(logging.CRITICAL)
from vmc import c14
tasks = json.load(sys.stdin)
out = []
for t in tasks:
    out.append(c14._eval(tuple(t)))
json.dump(out, sys.stdout)
"""


def _fresh(args):
    S, chunk = args
    env = dict(os.environ)
    env["SQLLINEAGE_DEFAULT_SCHEMA"] = S  # in the environment before sqllineage is imported
    p = subprocess.run([sys.executable, "-c", WORKER], input=json.dumps(chunk), capture_output=True, text=True, env=env, cwd=os.getcwd())
    if p.returncode != 0:
        raise HarnessError("fresh-interpreter worker failed: " + p.stderr[-800:])
    return json.loads(p.stdout)


def run_in_fresh_interpreters(S, ts):
    n = max(1, min(common.NPROC, len(ts) // 20 or 1))
    chunks = [ts[i::n] for i in range(n)]
    outs = pmap(_fresh, [(S, c) for c in chunks], chunk=1)
    # undo the striding
    res = [None] * len(ts)
    for k, out in enumerate(outs):
        for j, r in enumerate(out):
            res[k + j * n] = r
    return res


def replay(body: dict, opts: dict) -> int:
    c = body["case"]
    t = (c["sql"], c["qualified_sql"], c["dialect"], c["default_schema"], c["mechanism"])
    if c["mechanism"] == "env-before-import":
        r = _fresh((c["default_schema"], [list(t)]))[0]
    else:
        r = _eval(t)
    print(json.dumps({k: v for k, v in r.items() if k in ("same", "both_exc")}, indent=1))
    if r["same"]:
        print("OK on replay")
        return 0
    print(json.dumps({"observed": r["got"], "expected": r["exp"]}, indent=1)[:3000])
    print(f"VIOLATION property=C14 replay={opts.get('path', '<replayed>')}")
    return 1
