"""E10 / E11 and process plumbing shared by every driver.

* pinned environment (hash seed, PYTHONPATH -> repository under test, scrubbed SQLLINEAGE_* variables,
  empty scratch cwd) - re-execs the interpreter once if the pins are not in place;
* fork-based worker pool (`pmap`) with chunking, harness errors kept apart from violations;
* `Report`: counts, samples, violations with replay files, known findings, evidence writer, exit code;
* known-findings registry (`/verif/known_findings.json` + `/verif/pins/<ID>.json`), read-only at run time.
"""
from __future__ import annotations

import hashlib
import json
import multiprocessing as mp
import os
import random
import shutil
import sys
import tempfile
import time
import traceback

VERIF = os.path.dirname(os.path.dirname(os.path.abspath(__file__)))
REPO = os.environ.get("VERIF_REPO", "/repo")
EVIDENCE_DIR = os.environ.get("VERIF_EVIDENCE_DIR", os.path.join(VERIF, "evidence"))
REPLAY_DIR = os.environ.get("VERIF_REPLAY_DIR", os.path.join(VERIF, "replays"))
PINS_DIR = os.path.join(VERIF, "pins")
FINDINGS_FILE = os.path.join(VERIF, "known_findings.json")
NPROC = int(os.environ.get("VERIF_NPROC", str(os.cpu_count() or 4)))
GUARD = "SQLLINEAGE_VERIF"


class HarnessError(Exception):
    """the machinery itself failed (exit 2) - never reported as a violation"""


# ----------------------------------------------------------------------------------------------
# environment pinning
# ----------------------------------------------------------------------------------------------
def pin_environment(argv: list[str]) -> None:
    """Make the process environment a function of /verif and the repository alone.

    PYTHONHASHSEED has to be set before the interpreter starts, hence the re-exec. Children are
    forked from this process and inherit everything.
    """
    if os.environ.get("VMC_PINNED") == "1":
        return
    env = {k: v for k, v in os.environ.items() if not k.startswith("SQLLINEAGE_")}
    env.update(
        VMC_PINNED="1",
        PYTHONHASHSEED="0",
        PYTHONDONTWRITEBYTECODE="1",
        PYTHONPATH=REPO + os.pathsep + VERIF,
        PYTHONWARNINGS="default",
        VERIF_REPO=REPO,
    )
    env[GUARD] = "1"
    os.execve(sys.executable, [sys.executable, "-m", "vmc.check"] + argv, env)


_SCRATCH: list[str] = []


def scratch_cwd() -> str:
    """chdir into a fresh empty directory (no stray .sqlfluff); removed at exit by the CLI"""
    d = tempfile.mkdtemp(prefix="vmc_")
    _SCRATCH.append(d)
    os.chdir(d)
    return d


def cleanup_scratch() -> None:
    os.chdir("/")
    for d in _SCRATCH:
        shutil.rmtree(d, ignore_errors=True)
    _SCRATCH.clear()


def seed() -> int:
    try:
        return int(os.environ.get("VERIF_SEED", "0"))
    except ValueError:
        return 0


def shuffled(items, salt: str = ""):
    """VERIF_SEED only permutes visiting order; the set explored never depends on it."""
    items = list(items)
    random.Random(f"{seed()}:{salt}").shuffle(items)
    return items


def digest(obj) -> str:
    return hashlib.sha256(
        json.dumps(obj, sort_keys=True, default=str).encode()
    ).hexdigest()[:16]


# ----------------------------------------------------------------------------------------------
# worker pool
# ----------------------------------------------------------------------------------------------
_WORK = {}


def _run_chunk(args):
    fname, chunk = args
    f = _WORK[fname]
    out = []
    for idx, item in chunk:
        try:
            out.append((idx, True, f(item)))
        except BaseException as e:  # harness-side failure inside a worker
            out.append((idx, False, "".join(traceback.format_exception(e))[-4000:]))
    return out


def pmap(func, items, chunk: int = 8, nproc: int | None = None, init=None, desc: str = ""):
    """Order-preserving parallel map over forked workers.

    `func` must be a module-level function (it is looked up by name in the forked child, so closures
    are not pickled). An exception escaping `func` is a harness error.
    """
    items = list(items)
    nproc = nproc or NPROC
    name = f"{func.__module__}.{func.__qualname__}"
    _WORK[name] = func
    if not items:
        return []
    if nproc <= 1 or len(items) <= chunk:
        if init:
            init()
        res = _run_chunk((name, list(enumerate(items))))
    else:
        idx_items = list(enumerate(items))
        order = shuffled(range(0, len(idx_items), chunk), salt=name)
        chunks = [(name, idx_items[i : i + chunk]) for i in order]
        ctx = mp.get_context("fork")
        with ctx.Pool(min(nproc, len(chunks)), initializer=init) as pool:
            res = []
            for part in pool.imap_unordered(_run_chunk, chunks):
                res.extend(part)
    res.sort(key=lambda r: r[0])
    bad = [r for r in res if not r[1]]
    if bad:
        raise HarnessError(f"{len(bad)} worker failures in {desc or name}; first:\n{bad[0][2]}")
    return [r[2] for r in res]


# ----------------------------------------------------------------------------------------------
# known findings
# ----------------------------------------------------------------------------------------------
class Findings:
    """read-only view of the committed known-findings file and per-property pins"""

    def __init__(self, prop: str):
        self.prop = prop
        self.entries = {}  # findings listed for this property
        self.all = {}  # every listed finding (a pin may point at a finding first listed under another property)
        self.fixed = []
        if os.path.exists(FINDINGS_FILE):
            data = json.load(open(FINDINGS_FILE))
            self.fixed = [f for f in data.get("fixed", []) if f"property={prop} " in f]
            for e in data.get("findings", []):
                self.all[e["id"]] = e
                if prop in e.get("properties", [e.get("property")]):
                    self.entries[e["id"]] = e
        self.pins = {}
        p = os.path.join(PINS_DIR, prop + ".json")
        if os.path.exists(p):
            self.pins = json.load(open(p))

    def pinned(self, key: str, observed_digest: str):
        """finding id if (case key, observed answer) is exactly a listed failing case, else None"""
        hit = self.pins.get(key)
        if hit and hit[1] == observed_digest and hit[0] in self.all:
            return hit[0]
        return None

    def listed(self, fid: str) -> bool:
        return fid in self.entries


# ----------------------------------------------------------------------------------------------
# report / evidence
# ----------------------------------------------------------------------------------------------
class Report:
    def __init__(self, prop: str, tier: str, level: str):
        self.prop, self.tier, self.level = prop, tier, level
        self.t0 = time.time()
        self.coverage: dict = {"evaluations": 0, "distinct_nontrivial": 0, "rule": "", "samples": []}
        self.assumptions: list[str] = []
        self.violations: list[dict] = []
        self.known: dict[str, dict] = {}
        self.findings = Findings(prop)
        self.caps: list[str] = []
        self.max_replays = 25
        shutil.rmtree(os.path.join(REPLAY_DIR, prop), ignore_errors=True)

    # -- recording ------------------------------------------------------------------------
    def sample(self, case, limit: int = 6) -> None:
        if len(self.coverage["samples"]) < limit:
            self.coverage["samples"].append(case)

    def violation(self, kind: str, case: dict, detail) -> None:
        self.violations.append({"kind": kind, "case": case, "detail": detail})

    def known_finding(self, fid: str, what: str | None = None) -> None:
        e = self.known.setdefault(fid, {"count": 0, "what": what})
        e["count"] += 1

    def cap(self, text: str) -> None:
        self.caps.append(text)

    # -- finishing ------------------------------------------------------------------------
    def finish(self) -> int:
        os.makedirs(EVIDENCE_DIR, exist_ok=True)
        cov = self.coverage
        cov["known_findings_observed"] = {k: v["count"] for k, v in sorted(self.known.items())}
        cov["stale_findings"] = sorted(set(self.findings.entries) - set(self.known))
        cov["caps_hit"] = self.caps
        cov["violations_by_kind"] = {}
        for v in self.violations:
            cov["violations_by_kind"][v["kind"]] = cov["violations_by_kind"].get(v["kind"], 0) + 1
        ev = {
            "property_id": self.prop,
            "tier": self.tier,
            "seed": seed(),
            "level": self.level,
            "coverage": cov,
            "assumptions": self.assumptions,
            "wall_s": round(time.time() - self.t0, 2),
            "violations": len(self.violations),
        }
        with open(os.path.join(EVIDENCE_DIR, self.prop + ".json"), "w") as f:
            json.dump(ev, f, indent=1, sort_keys=True, default=str)
            f.write("\n")
        for fid, e in sorted(self.known.items()):
            what = e["what"] or self.findings.all.get(fid, {}).get("what_fails", "")
            print(f"KNOWN-FINDING: property={self.prop} {fid} {what} [{e['count']} case(s)]")
        if self.violations:
            d = os.path.join(REPLAY_DIR, self.prop)
            os.makedirs(d, exist_ok=True)
            seen_kinds: dict[str, int] = {}
            written = 0
            for v in self.violations:
                seen_kinds[v["kind"]] = seen_kinds.get(v["kind"], 0) + 1
                if seen_kinds[v["kind"]] > 5 or written >= self.max_replays:
                    continue
                written += 1
                body = {"property": self.prop, "kind": v["kind"], "case": v["case"], "detail": v["detail"]}
                path = os.path.join(d, digest(body) + ".json")
                with open(path, "w") as f:
                    json.dump(body, f, indent=1, default=str)
                    f.write("\n")
                print(f"VIOLATION property={self.prop} replay={path}")
                print(f"  kind={v['kind']} detail={json.dumps(v['detail'], default=str)[:600]}")
            if len(self.violations) > written:
                print(f"  ... {len(self.violations)} violating cases in total, {written} replay files written")
            return 1
        print(
            f"OK property={self.prop} tier={self.tier} evaluations={cov.get('evaluations')} "
            f"distinct_nontrivial={cov.get('distinct_nontrivial')} wall_s={ev['wall_s']}"
            + (f" caps={self.caps}" if self.caps else "")
        )
        return 0
