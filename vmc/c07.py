"""C07 - lineage is invariant under layout, comments and letter case.

Seeds: corpus statements and generator cases. Tokens come from sqlfluff's lexer. Rewrites: replace a whitespace
token by newline+tab+blank, insert a blank between two adjacent tokens, insert a block comment / a line comment (both
containing ';') at a token boundary, upper-case a keyword, upper-case an unquoted identifier, quote a lower-case
identifier in the dialect's style, append ';;'. E1 with the *site* as choice point: every rewrite at every eligible
site singly, every rewrite kind at all its sites at once, and (thorough) every pair of sites for the shortest seeds.
Eligibility is decided by sqlfluff (original and rewritten text parse without violation and have the same
non-blank token sequence up to the rewrite itself), so e.g. a comment that splits a token is outside the domain.
Differential oracle: tables and named-column pairs equal those of the original.
"""
from __future__ import annotations

import itertools
import json
import re

from vmc import common, corpus, observe, sqlgen
from vmc.c01 import _write_pins, enumerate_cases, enumerate_plan
from vmc.common import HarnessError, Report, pmap

BACKTICK = sqlgen.BACKTICK
KINDS = ["nl", "nl1", "tab", "blank", "block", "mblock", "line", "kwupper", "idupper", "quote", "semi", "semi_block", "semi_line"]
LEGACY = "non-validating"
LEGACY_KINDS = {"nl", "nl1", "tab", "kwupper", "mblock"}  # the sqlparse-based analyzer: existing blanks re-laid out, keyword case


def lex(sql, dialect):
    from sqlfluff.core import FluffConfig, Linter

    p = Linter(config=FluffConfig.from_path(path=".", overrides={"dialect": dialect})).parse_string(sql)
    if p.root_variant() is None or any(type(v).__name__ in ("SQLLexError", "SQLParseError") for v in p.violations):
        return None
    out = []
    for s in p.tree.raw_segments:
        if s.raw == "":
            continue
        kind = "ws" if s.is_whitespace or s.is_type("newline") else "comment" if s.is_comment else "kw" if s.is_type("keyword") else \
            "ident" if s.is_type("naked_identifier") else "other"
        out.append((s.raw, kind))
    return out


def quote_of(dialect):
    return "`{}`" if dialect in BACKTICK else "[{}]" if dialect == "tsql" else '"{}"'


def sites(toks, dialect):
    """(kind, index) for every eligible-looking site"""
    out = []
    for i, (raw, k) in enumerate(toks):
        if k == "ws":
            out.append(("nl", i))
            out.append(("nl1", i))
            out.append(("tab", i))
        if i > 0 and k != "ws" and toks[i - 1][1] != "ws":
            out.append(("blank", i))
        if i > 0:
            out.append(("block", i))
            out.append(("mblock", i))
            out.append(("line", i))
        if k == "kw" and raw != raw.upper():
            out.append(("kwupper", i))
        if k == "ident" and raw != raw.upper():
            out.append(("idupper", i))
        if k == "ident" and raw == raw.lower():
            out.append(("quote", i))
    out.append(("semi", len(toks)))
    out.append(("semi_block", len(toks)))
    out.append(("semi_line", len(toks)))
    return out


def apply(toks, dialect, chosen):
    """chosen: list of (kind, index)"""
    by = {}
    for kind, i in chosen:
        by.setdefault(i, []).append(kind)
    parts = []
    for i, (raw, k) in enumerate(toks):
        ks = by.get(i, [])
        pre = ""
        if "blank" in ks:
            pre += " "
        if "block" in ks:
            pre += " /* c;c */ " if k != "ws" and toks[i - 1][1] != "ws" else "/* c;c */"
        if "mblock" in ks:  # a block comment that spans a line break
            pre += " /* c;\n c */ " if k != "ws" and toks[i - 1][1] != "ws" else "/* c;\n c */"
        if "line" in ks:
            pre += " -- c;c\n"
        if "nl" in ks:
            raw = "\n\t "
        if "nl1" in ks:
            raw = "\n"
        if "tab" in ks:
            raw = "\t"
        if "kwupper" in ks or "idupper" in ks:
            raw = raw.upper()
        if "quote" in ks:
            raw = quote_of(dialect).format(raw)
        parts.append(pre + raw)
    text = "".join(parts)
    tail = by.get(len(toks), [])
    if "semi" in tail:
        text += ";;"
    if "semi_block" in tail:
        text += "; /* c;c */ ;"
    if "semi_line" in tail:
        text += ";\n-- c;c\n;\n"
    return text


def significant(toks):
    return [re.sub(r'^["`\[]|["`\]]$', "", raw).lower() for raw, k in toks if k not in ("ws", "comment")]


def eligible(orig_toks, text, dialect):
    t2 = lex(text, dialect)
    if t2 is None:
        return False
    a, b = significant(orig_toks), significant(t2)
    while b and b[-1] == ";":
        b.pop()
    while a and a[-1] == ";":
        a.pop()
    return a == b


def canon(o):
    if "exception" in o:
        return {"exception": o["exception"]}
    return {"source": o["source"], "target": o["target"], "intermediate": o["intermediate"], "pairs": sorted({(a, b) for a, b in o["pairs"]})}


def obs(sql, dialect):
    """tables + pairs with the display names of un-aliased expression columns replaced by a placeholder"""
    observe.EXPR_PLACEHOLDER[0] = True
    try:
        return canon(observe.observe(sql, dialect, level="columns"))
    finally:
        observe.EXPR_PLACEHOLDER[0] = False


def _eval(task):
    seed_id, sql, dialect, variants = task[:4]
    no_mblock = variants.endswith("-nomblock")  # thorough: seeds beyond the quick selection keep the rewrite kinds of the earlier rounds
    variants = variants.replace("-nomblock", "")
    analyzer = task[4] if len(task) > 4 else dialect  # the tokens are sqlfluff's under `dialect`; the analysis may be the legacy analyzer's
    toks = lex(sql, dialect)
    if toks is None:
        return {"seed_rejected": True}
    base = obs(sql, analyzer)
    if "exception" in base:
        return {"seed_rejected": True}
    all_sites = sites(toks, dialect)
    if analyzer == LEGACY:
        all_sites = [x for x in all_sites if x[0] in LEGACY_KINDS]
    if no_mblock:
        all_sites = [x for x in all_sites if x[0] != "mblock"]
    plan = []
    if variants == "single+all" or variants == "pairs":
        # single-site "\n" / "\t" re-layouts are explored for the sqlparse-based analyzer; under sqlfluff they add nothing to
        # the single-site "\n\t " one and are kept in their all-sites-at-once form
        plan += [[s] for s in all_sites if s[0] not in ("nl1", "tab") or analyzer == LEGACY]
    for kind in KINDS:
        ss = [s for s in all_sites if s[0] == kind]
        if len(ss) > 1:
            plan.append(ss)
    if variants == "pairs":
        plan += [list(p) for p in itertools.combinations(all_sites, 2) if "mblock" not in (p[0][0], p[1][0]) and (p[0][1] != p[1][1] or {p[0][0], p[1][0]} <= {"blank", "block", "mblock", "line", "kwupper", "idupper", "quote", "nl"} and p[0][0] != p[1][0])]
    out = []
    n = skipped = 0
    inner_texts = set()
    for chosen in plan:
        if len({(k, i) for k, i in chosen}) != len(chosen):
            continue
        kinds_here = {}
        for k, i in chosen:
            kinds_here.setdefault(i, set()).add(k)
        if any({"kwupper", "idupper"} & ks and "quote" in ks or len({"nl", "nl1", "tab"} & ks) > 1 for ks in kinds_here.values()):
            continue
        text = apply(toks, dialect, chosen)
        n += 1
        if not all(k.startswith("semi") for k, _ in chosen):
            inner_texts.add(text)
        o = obs(text, analyzer)
        if o == base:
            continue
        if not eligible(toks, text, dialect):
            skipped += 1
            continue
        ctx = [(k, toks[i - 1][0] if i > 0 else "^", toks[i][0] if i < len(toks) else "$") for k, i in chosen[:2]]
        out.append({"text": text, "sites": [list(c) for c in chosen[:4]], "n_sites": len(chosen), "context": ctx, "obs": o})
    return {"n": n, "skipped": skipped, "bad": out, "base": base, "tokens": len(toks), "inner": len(inner_texts)}


# one lower-case seed per statement family whose extractor looks at keywords (multi-statement where the effect needs a history)
EXTRA_SEEDS = [
    ("ansi", "insert into tab1 select * from src; alter table tab1 rename to tab2"),
    ("mysql", "insert into tab1 select * from src; rename table tab1 to tab2"),
    ("hive", "alter table tab1 exchange partition (p = 1) with table tab2"),
    ("snowflake", "alter table tab1 swap with tab2"),
    ("ansi", "insert into tab1 select * from src; drop table if exists src2; truncate table tab3"),
    ("sparksql", "insert overwrite table tab1 select a from src"),
    ("ansi", "merge into tab1 t using src s on t.id = s.id when matched then update set t.v = s.v when not matched then insert (id, v) values (s.id, s.v)"),
    ("ansi", "update tab1 set a = s.b from src s where tab1.id = s.id"),
    ("postgres", "copy tab1 from '/tmp/x.csv'"),
    ("ansi", "create table tab1 like src"),
    ("ansi", "create view v1 (a, b) as select c, d from src"),
    ("sparksql", "cache table tab1; insert into tab2 select a from tab1"),
    ("ansi", "insert into tab1 select a from ((select a from tab2) union all (select a from tab3)) dt"),
    ("ansi", "insert into tab1 (select a from tab2) union all (select a from tab3)"),
]


def seeds_for(tier):
    out = [(f"extra:{i}", sql, d, "single+all") for i, (d, sql) in enumerate(EXTRA_SEEDS)]
    seen_fn = set()
    for r in corpus.corpus(("tests", "docs")):
        if not r["fluff"]:
            continue
        fn = r["id"].split("[")[0].split("#")[0]
        if tier == "quick" and fn in seen_fn:
            continue
        seen_fn.add(fn)
        if ";" in r["sql"].strip().rstrip(";"):
            continue  # single statements here; multi-statement layout is C05
        if r["md"]:
            continue
        out.append((r["id"], r["sql"].strip(), r["dialect"], "single+all" if len(r["sql"]) < (160 if tier == "quick" else 1500) else "all"))
    tp = corpus.corpus(("tpcds",))
    for r in tp[:10] if tier == "quick" else tp:
        out.append((r["id"], r["sql"].strip(), "ansi", "all"))
    C = sqlgen.CENTRES
    plan = [("simple", C["simple"], 1), ("join", C["join"], 1), ("derived", C["derived"], 0), ("cte", C["cte"], 0), ("tables", sqlgen.TABLE_PROFILE, 1)]
    if tier != "quick":
        plan = [("simple", C["simple"], 2), ("join", C["join"], 1), ("derived", C["derived"], 1), ("cte", C["cte"], 1), ("tables", sqlgen.TABLE_PROFILE_R3, 2), ("tables", sqlgen.TABLE_PROFILE, 1)]
    for sql, (st, trace, ndev, centre) in enumerate_plan(plan, 2)[0]:
        if st["kind"] == "select_into" or "item:pgcast" in sqlgen.features(st):
            out.append(("gen:" + centre, sqlgen.render(st, sqlgen.R(dialect="postgres")), "postgres", "single+all"))
        else:
            out.append(("gen:" + centre, sql, "ansi", "single+all"))
    return out


def classify(task, b):
    t = b["text"]
    if len(task) > 4 and task[4] == LEGACY and t.lower().startswith("merge") and re.search(r"\(\s*/\*", t):
        return "F-C07-legacy-merge-comment-after-parenthesis"
    if re.search(r"(\s|\*/|\n)\.|\.(\s|/\*|--)", t):
        return "F-C07-layout-inside-dotted-name"
    if re.search(r"\w\s+\(|\w\s*/\*.*?\*/\s*\(|\w\s*--[^\n]*\n\s*\(", t) and re.search(r"\(\s*(--[^\n]*\n\s*)*select", t, re.I):
        return "F-C07-space-before-parenthesis-in-select-list-subquery"
    return "F-C07-comment-next-to-operator"


def run(tier: str, opts: dict) -> int:
    rep = Report("C07", tier, "exploration")
    seeds = seeds_for(tier)
    if tier != "quick":
        short = sorted([s for s in seeds if s[3] == "single+all"], key=lambda s: len(s[1]))[:50]
        seeds = [(a, b, c, "pairs") if (a, b, c, d) in short else (a, b, c, d) for a, b, c, d in seeds]
    # the same seeds under the sqlparse-based analyzer (ansi-lexed seeds; generated seeds always, corpus seeds in thorough)
    seeds += [(a, b, c, "single+all" if d == "pairs" else d, LEGACY) for a, b, c, d in seeds if c == "ansi" and (tier != "quick" or a.startswith(("gen:", "extra:")))]
    if tier != "quick":
        # the multi-line block comment rewrite (fourth round) is applied to the seeds of the quick selection; the other seeds keep the earlier kinds
        qs = seeds_for("quick")
        quick_keys = {(a, b, c): d for a, b, c, d in qs}
        quick_keys.update({(a, b, c, LEGACY): d for a, b, c, d in qs if c == "ansi" and a.startswith(("gen:", "extra:"))})
        keep = lambda t: quick_keys.get(t[:3] + t[4:5]) in ("single+all", t[3])  # noqa: E731 - the quick tier ran at least these variants of the seed
        seeds = [t if keep(t) else (t[0], t[1], t[2], t[3] + "-nomblock") + t[4:] for t in seeds]
    res = pmap(_eval, seeds, chunk=1)
    regen = opts.get("regen_pins")
    new_pins = {}
    n_var = n_skip = n_rej = 0
    nontrivial = 0
    for t, r in zip(seeds, res):
        if r.get("seed_rejected"):
            n_rej += 1
            continue
        n_var += r["n"]
        n_skip += r["skipped"]
        nontrivial += r["inner"]
        for b in r["bad"]:
            key = f"{t[4] if len(t) > 4 else t[2]}|{b['text']}"
            dg = common.digest(b["obs"])
            if regen:
                new_pins[key] = [classify(t, b), dg]
                continue
            fid = rep.findings.pinned(key, dg)
            if fid:
                rep.known_finding(fid)
            else:
                rep.violation("rewrite-changes-lineage", {"seed": t[0], "dialect": t[2], "analyzer": t[4] if len(t) > 4 else t[2], "original": t[1], "rewritten": b["text"], "sites": b["sites"], "context": b["context"]},
                              {"original": r["base"], "rewritten": b["obs"]})
    if regen:
        by = {}
        for k, (fid, _) in new_pins.items():
            by.setdefault(fid, []).append(k)
        for fid, ks in sorted(by.items()):
            print(fid, len(ks))
            for k in sorted(ks, key=len)[:3]:
                print("     ", repr(k[:260]))
        return _write_pins("C07", new_pins, [], replace=(tier == "thorough"))
    for t in seeds[:: max(1, len(seeds) // 5)][:5]:
        rep.sample({"seed": t[0], "dialect": t[2], "sql": t[1][:200], "variants": t[3]})
    rep.coverage.update(
        evaluations=n_var,
        distinct_nontrivial=nontrivial,
        seeds=len(seeds) - n_rej,
        seeds_not_parsed_by_sqlfluff=n_rej,
        rule=f"seeds: corpus single statements (quick: one per test function) + TPC-DS + generator cases, the ansi ones also under the sqlparse-based analyzer (blank layout and keyword case only); rewrites {KINDS}: every rewrite at every site singly, "
        "every kind at all its sites at once (long seeds: only that), thorough: all pairs of sites for the 50 shortest seeds; non-trivial = distinct rewritten texts whose rewrite lies inside the statement (not only appended semicolons), counted per seed",
        exhaustive=True,
        ineligible_variants_skipped=n_skip,
    )
    rep.assumptions += [
        "eligibility (is the rewrite a valid, token-preserving respelling?) is decided by sqlfluff, not by the outcome",
        "display names of un-aliased expression columns are replaced by a placeholder before comparing",
        "known findings matched exactly per (dialect, rewritten text, observed answer) from pins/C07.json",
    ]
    return rep.finish()


def replay(body: dict, opts: dict) -> int:
    c = body["case"]
    an = c.get("analyzer", c["dialect"])
    base = obs(c["original"], an)
    o = obs(c["rewritten"], an)
    print(json.dumps({"original": base, "rewritten": o}, indent=1)[:3000])
    if o == base:
        print("OK on replay")
        return 0
    fid = common.Findings("C07").pinned(f"{an}|{c['rewritten']}", common.digest(o))
    if fid:
        print(f"KNOWN-FINDING: property=C07 {fid}")
        return 0
    print(f"VIOLATION property=C07 replay={opts.get('path', '<replayed>')}")
    return 1
