"""C01 - single-statement table lineage is exact.

E1 over the E6 generator (table profile): every choice sequence with <= D deviations from the simplest
statement, nesting depth <= 2/3, each rendered under every chosen dialect that accepts it (sqlfluff decides),
run through the real LineageRunner and compared with refsem.tables (exact set equality for sources and target).
"""
from __future__ import annotations

import json
import os
import time

from vmc import common, explorer, observe, refsem, sqlgen
from vmc.common import HarnessError, Report, pmap

QUICK_DIALECTS = ["ansi", "tsql", "sparksql", "postgres", "mysql", "bigquery", "snowflake"]
PATH_DIALECTS = ["postgres", "duckdb", "redshift", "greenplum", "snowflake", "sparksql", "hive", "databricks"]
FILES_IN_FROM = {"sparksql", "databricks"}
SELECT_INTO_OK = {"tsql", "postgres", "redshift", "greenplum", "materialize", "duckdb"}


def all_dialects():
    from sqllineage.core.parser.sqlfluff.analyzer import SqlFluffLineageAnalyzer

    return list(SqlFluffLineageAnalyzer.SUPPORTED_DIALECTS)


def enumerate_cases(profile, D, depth, new_alt_bound=None):
    """distinct statements (by ansi rendering) within the deviation bound, simplest first.
    new_alt_bound (thorough tiers, table profile): the alternatives added in the fourth round are explored to that bound, the older ones to D"""
    seen = {}
    n_exec = 0
    runs = [(profile, D)]
    if new_alt_bound is not None and profile is sqlgen.TABLE_PROFILE and new_alt_bound < D:
        runs = [(sqlgen.TABLE_PROFILE_R3, D), (profile, new_alt_bound)]
    for prof, bound in runs:
        for ch, st in explorer.explore(lambda c, prof=prof: sqlgen.gen_statement(c, prof, depth), bound):
            n_exec += 1
            sql = sqlgen.render(st)
            if sql not in seen:
                seen[sql] = (st, ch.trace, len(ch.deviations()))
    cases = sorted(seen.items(), key=lambda kv: (kv[1][2], len(kv[0]), kv[0]))
    return cases, n_exec


def enumerate_plan(plan, depth=2):
    """plan: [(centre name, profile, D)] - the union of the deviation balls around several centres, deduplicated by text;
    returns ([(sql, (st, trace, ndev, centre))], generator executions)"""
    seen = {}
    n_exec = 0
    for name, profile, D in plan:
        cs, n = enumerate_cases(profile, D, depth)
        n_exec += n
        for sql, (st, trace, ndev) in cs:
            if sql not in seen or (name == "simple" and seen[sql][3] != "simple"):
                seen[sql] = (st, trace, ndev, name)
    return sorted(seen.items(), key=lambda kv: (kv[1][3] != "simple", kv[1][2], len(kv[0]), kv[0])), n_exec


def has_path(st):
    """the statement reads or writes a file path (the part of the space drawn from sqlgen.PATH_PROFILE)"""
    if st["kind"] in ("insert_dir", "copy_from", "copy_to"):
        return True
    found = []
    sqlgen.walk_rels(st, lambda r: found.append(1) if r["k"] == "path" else None)
    return bool(found)


def _eval(task):
    st, dialect = task
    sql = sqlgen.render(st, sqlgen.R(dialect=dialect))
    obs = observe.observe(sql, dialect, level="tables")
    if "exception" in obs:
        if obs["exception"] == "InvalidSyntaxException" and not observe.sqlfluff_accepts(sql, dialect):
            return {"sql": sql, "skip": "rejected-by-dialect"}
        return {"sql": sql, "bad": "exception", "obs": obs}
    src, tgt = refsem.tables(st)
    got = (set(obs["source"]), set(obs["target"]))
    if got == (src, tgt):
        return {"sql": sql, "ok": True, "n_src": len(src)}
    return {
        "sql": sql,
        "bad": "tables",
        "obs": {"source": obs["source"], "target": obs["target"]},
        "expected": {"source": sorted(src), "target": sorted(tgt)},
        "delta": {"missing_source": sorted(src - got[0]), "extra_source": sorted(got[0] - src), "missing_target": sorted(tgt - got[1]), "extra_target": sorted(got[1] - tgt)},
    }


def classify(st, dialect, res):
    """map a disagreement on the unchanged tree to a finding id (used only when pins are regenerated; every
    class here was triaged by hand as a genuine deviation from the property text - see DESIGN.md section 10)"""
    f = sqlgen.features(st)
    if res["bad"] != "tables":
        return None
    d = res["delta"]
    only_missing_src = d["missing_source"] and not d["extra_source"] and not d["missing_target"] and not d["extra_target"]
    if only_missing_src:
        comma = "from:comma" in f or "from:join_comma" in f or "from:comma_join" in f
        if ("where:in" in f or "where:and" in f) and comma:
            return "F-C01-comma-join-inside-in-subquery"
        if "from:nested_paren" in f and "rel:derived" in f:
            return "F-C01-derived-table-in-parenthesised-join"
    return None


def run(tier: str, opts: dict) -> int:
    rep = Report("C01", tier, "exploration")
    D = int(opts.get("D", 2 if tier == "quick" else 3))
    depth = int(opts.get("depth", 2))
    dialects = QUICK_DIALECTS if tier == "quick" else all_dialects()
    if "dialects" in opts:
        dialects = opts["dialects"].split(",")
    t0 = time.time()
    cases, n_exec = enumerate_cases(sqlgen.TABLE_PROFILE, D, depth, new_alt_bound=None if tier == "quick" else 2)
    known = {sql for sql, _ in cases}
    more, n2 = enumerate_cases(sqlgen.TABLE_SETOP, 1, depth)  # second centre: union of two derived tables (one deviation, both tiers)
    more = [c for c in more if c[0] not in known]
    second = {id(c[1][0]) for c in more}
    cases += more
    n_exec += n2
    if tier != "quick":
        r3 = {sql for sql, _ in enumerate_cases(sqlgen.TABLE_PROFILE_R3, D, depth)[0]}
        second |= {id(c[1][0]) for c in cases if c[0] not in r3}  # statements using a fourth-round alternative: dialects as in the quick tier
    tasks = []
    for sql, (st, trace, ndev) in cases:
        for d in dialects:
            if id(st) in second and d not in QUICK_DIALECTS and "dialects" not in opts:
                continue  # the second ball under the 7 grammar families in both tiers
            if st["kind"] == "select_into" and d not in SELECT_INTO_OK:
                continue  # SELECT ... INTO x assigns a variable in the mysql family: not a data-moving form there
            if tier != "quick" and ndev >= 3 and d not in QUICK_DIALECTS and "dialects" not in opts:
                continue  # thorough: the outermost ball under the 7 grammar families, the D<=2 ball under all 28 dialects
            tasks.append((st, d))
    # file paths (COPY in both directions, INSERT OVERWRITE DIRECTORY, files in FROM): a second ball around a path-bearing centre,
    # under the dialects whose grammar has these forms (thorough: all dialects; sqlfluff's acceptance decides the domain)
    pcases, pn = enumerate_cases(sqlgen.PATH_PROFILE, int(opts.get("Dp", 2)), depth)  # both tiers: two deviations; thorough: under all dialects
    pcases = [c for c in pcases if has_path(c[1][0])]
    n_exec += pn
    path_ids = set()
    for sql, (st, trace, ndev) in pcases:
        path_ids.add(id(st))
        rels = []
        sqlgen.walk_rels(st, lambda r: rels.append(r["k"]))
        for d in PATH_DIALECTS:  # both tiers
            if "path" in rels and d not in FILES_IN_FROM:
                continue  # fmt.`path` in FROM denotes a file only in the spark family; elsewhere the same text is a table named that way
            tasks.append((st, d))
    cases = cases + pcases
    res = pmap(_eval, tasks, chunk=16)
    regen = opts.get("regen_pins")
    ansi_res = {id(st): r for (st, d), r in zip(tasks, res) if d == "ansi" and not r.get("skip")}
    new_pins = {}
    unclassified = []
    per_dialect = {}
    per_kind = {}
    nontrivial = set()
    skipped = 0
    path_accepted = {}
    for (st, d), r in zip(tasks, res):
        pd = per_dialect.setdefault(d, {"accepted": 0, "rejected": 0, "disagree": 0})
        if r.get("skip"):
            pd["rejected"] += 1
            skipped += 1
            if d == "ansi" and id(st) not in path_ids:
                raise HarnessError(f"generated statement rejected by ansi: {r['sql']}")
            continue
        pd["accepted"] += 1
        per_kind[st["kind"]] = per_kind.get(st["kind"], 0) + 1
        if id(st) in path_ids:
            path_accepted[st["kind"]] = path_accepted.get(st["kind"], 0) + 1
        src, _ = refsem.tables(st)
        if len(src) >= 2 or any(x in sqlgen.features(st) for x in ("rel:derived", "rel:cte", "setop")):
            nontrivial.add(r["sql"])
        if r.get("ok"):
            continue
        pd["disagree"] += 1
        key = f"{d}|{r['sql']}"
        dg = common.digest(r["obs"])
        if regen:
            fid = classify(st, d, r)
            if fid is None and d != "ansi" and id(st) in ansi_res:
                ar = ansi_res[id(st)]
                if ar.get("ok") or r.get("obs") != ar.get("obs"):
                    fid = f"F-C09-{d}-deviates"  # this dialect's answer differs from ansi's (which may itself be a listed finding)
                else:
                    fid = classify(st, "ansi", ar)  # the same wrong answer as under ansi
            if fid is None:
                unclassified.append((key, r))
            else:
                new_pins[key] = [fid, dg]
            continue
        fid = rep.findings.pinned(key, dg)
        if fid:
            rep.known_finding(fid)
        else:
            rep.violation(r["bad"], {"dialect": d, "sql": r["sql"], "ast": st}, {k: r[k] for k in ("obs", "expected", "delta") if k in r})
    for kind in ("insert_dir", "copy_from", "copy_to", "insert", "bare"):
        if not path_accepted.get(kind):
            raise HarnessError(f"vacuous: no dialect accepted any path-bearing statement of kind {kind}")
    if regen:
        return _write_pins("C01", new_pins, unclassified, replace=(tier == "thorough"))
    for sql, (st, trace, ndev) in cases[:: max(1, len(cases) // 5)][:5]:
        rep.sample({"sql": sql, "choice_trace": trace, "deviations": ndev})
    rep.coverage.update(
        evaluations=len(tasks),
        distinct_nontrivial=len(nontrivial),
        generator_executions=n_exec,
        distinct_statements=len(cases),
        rule=f"all choice sequences with <= {D} deviations from 'INSERT INTO tgt SELECT c1 FROM t1' (and <= 1 from a second centre, the union of two derived tables) over statement kind x query form x "
        f"FROM shape x relation kind x WHERE form x select-list form x tail, nesting depth <= {depth}; rendered per dialect; "
        "non-trivial = distinct rendered statement reading >= 2 tables or containing a derived table, CTE or set operation",
        exhaustive=True,
        bound_completed={"deviations": D, "depth": depth, "dialects": dialects},
        per_dialect=per_dialect,
        per_statement_kind=per_kind,
        path_statements={"distinct": len(pcases), "accepted_evaluations_per_kind": path_accepted,
                         "rule": "second ball around INSERT OVERWRITE DIRECTORY '<p>' SELECT c1 FROM parquet.`<p>`: COPY t FROM / COPY t TO / COPY (query) TO / "
                                 "INSERT OVERWRITE [LOCAL] DIRECTORY / files in any FROM slot, <= 2 deviations under the dialects that have these forms (both tiers)"},
        rejected_by_dialect=skipped,
    )
    rep.assumptions += [
        "reference semantics refsem.tables written from the property text",
        "domain filter: a statement is in a dialect's domain iff sqlfluff itself parses it without violations",
        "known findings matched exactly: (dialect, statement text, observed answer) pinned in pins/C01.json",
    ]
    return rep.finish()


def _write_pins(prop, new_pins, unclassified, replace=False):
    if unclassified:
        print(f"{len(unclassified)} disagreements are not covered by any triaged finding class - pins NOT written")
        groups = {}
        for key, r in sorted(unclassified, key=lambda x: len(x[0])):
            d = r.get("delta", {})
            sig = (key.split("|")[0], r.get("bad"), tuple(sorted((k, len(v) > 0) for k, v in d.items())), (r.get("obs") or {}).get("exception"))
            groups.setdefault(sig, []).append((key, r))
        for sig, items in sorted(groups.items(), key=lambda kv: -len(kv[1]))[:25]:
            print(f"== {len(items)} x {sig}")
            for key, r in items[: int(os.environ.get("VMC_SHOW", "3"))]:
                print("  ", key)
                print("      ", json.dumps({k: r[k] for k in ("delta", "obs") if k in r}, default=str)[:500])
        return 1
    os.makedirs(common.PINS_DIR, exist_ok=True)
    path = os.path.join(common.PINS_DIR, prop + ".json")
    old = {}
    if os.path.exists(path) and not replace:
        old = json.load(open(path))
    old.update(new_pins)
    with open(path, "w") as f:
        json.dump(old, f, indent=0, sort_keys=True)
        f.write("\n")
    by = {}
    for k, (fid, _) in new_pins.items():
        by[fid] = by.get(fid, 0) + 1
    print(f"pins written: {len(new_pins)} (file now {len(old)}) by finding: {by}")
    return 0


def replay(body: dict, opts: dict) -> int:
    c = body["case"]
    r = _eval((c["ast"], c["dialect"]))
    print(json.dumps(r, indent=1, default=str)[:3000])
    if r.get("ok") or r.get("skip"):
        print("OK on replay")
        return 0
    fid = common.Findings("C01").pinned(f"{c['dialect']}|{r['sql']}", common.digest(r["obs"]))
    if fid:
        print(f"KNOWN-FINDING: property=C01 {fid}")
        return 0
    print(f"VIOLATION property=C01 replay={opts.get('path', '<replayed>')}")
    return 1
