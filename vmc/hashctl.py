"""E4 - controlled hashing: enumerate set-iteration orders of the library's model objects.

The five model classes (Schema, Table, Path, SubQuery, Column) hash by printed name. The harness replaces their
__hash__ by a lookup in a table it controls. CPython iterates a set in slot order and slot = hash & mask, so small
distinct non-negative hashes give ascending-hash iteration in every table size:
  * |N| <= limit: all |N|! assignments of 0..|N|-1 - every relative iteration order of every set of model objects;
  * beyond: every ordered pair (triple) of names put at the front: a->0, b->1 [, c->2], every other name a distinct
    hash whose low three bits are in 3..7, so in every set containing them a is iterated first and b second.
"""
from __future__ import annotations

import itertools

TABLE: dict[str, int] = {}
RECORD: set[str] = set()
_ORIG: dict = {}
_OTHER: dict[str, int] = {}


def H(name: str) -> int:
    RECORD.add(name)
    h = TABLE.get(name)
    if h is not None:
        return h
    o = _OTHER.get(name)
    if o is None:
        k = len(_OTHER)
        o = _OTHER[name] = 8 * (k + 1) + 3 + (k % 5)  # distinct, non-negative, low three bits in 3..7
    return o


def install():
    from sqllineage.core import models as M

    if _ORIG:
        return
    for cls in (M.Schema, M.Table, M.Path, M.SubQuery, M.Column):
        _ORIG[cls] = cls.__hash__
    M.Schema.__hash__ = lambda s: H(str(s))
    M.Table.__hash__ = lambda s: H(str(s))
    M.Column.__hash__ = lambda s: H(str(s))
    M.Path.__hash__ = lambda s: H(s.uri)
    M.SubQuery.__hash__ = lambda s: H("SQ:" + s.query_raw)


def uninstall():
    for cls, h in _ORIG.items():
        cls.__hash__ = h
    _ORIG.clear()


def set_assignment(assign: dict[str, int]):
    TABLE.clear()
    TABLE.update(assign)
    _OTHER.clear()


def discover(run):
    """names the hash function is asked for during run()"""
    set_assignment({})
    RECORD.clear()
    run()
    return sorted(RECORD)


def assignments(names, full_limit=6, front=2):
    """the assignments explored for a set of hash-relevant names"""
    if len(names) <= full_limit:
        for perm in itertools.permutations(range(len(names))):
            yield dict(zip(names, perm))
    else:
        for combo in itertools.permutations(names, front):
            yield {n: i for i, n in enumerate(combo)}


def selftest():
    """the claim the engine rests on: with small distinct hashes a set iterates in ascending-hash order"""

    class K:
        def __init__(self, n):
            self.n = n

        def __hash__(self):
            return H(self.n)

        def __eq__(self, o):
            return self.n == o.n

    names = [f"n{i}" for i in range(6)]
    for perm in itertools.islice(itertools.permutations(range(6)), 0, 720, 7):
        set_assignment(dict(zip(names, perm)))
        s = set()
        for n in names:
            s.add(K(n))
        order = [k.n for k in s]
        assert order == sorted(names, key=lambda n: TABLE[n]), (perm, order)
    many = [f"m{i}" for i in range(40)]
    for a, b in (("m3", "m17"), ("m39", "m0")):
        set_assignment({a: 0, b: 1})
        for size in (5, 9, 20, 40):
            s = {K(n) for n in many[:size]} | {K(a), K(b)}
            it = [k.n for k in s]
            assert it[0] == a and it[1] == b, (a, b, size, it[:4])
    set_assignment({})
