"""E8 - invariant monitors for C06 (well-formed column lineage, consistent with table lineage) and C18 (faithful
export), evaluated on every result that the generators and the corpus produce; plus the shared "space of results".

A monitor is a pure function from one evaluated LineageRunner to a list of (invariant id, detail).
"""
from __future__ import annotations

import itertools
import json

from vmc import common, explorer, observe, sqlgen


# ------------------------------------------------------------------------------------------------
# the space of results: scripts from the generators of C01-C05 and the corpus
# ------------------------------------------------------------------------------------------------
def results_space(tier: str):
    """list of {"id", "sql", "dialect", "md"}"""
    from vmc import c03, c04, c05, corpus
    from vmc.c01 import enumerate_cases, enumerate_plan

    items = []
    seen = set()

    def add(i, sql, dialect="ansi", md=None):
        k = (sql, dialect, json.dumps(md, sort_keys=True))
        if k not in seen:
            seen.add(k)
            items.append({"id": i, "sql": sql, "dialect": dialect, "md": md})

    D = 2 if tier == "quick" else 3
    for sql, (st, trace, ndev) in enumerate_cases(sqlgen.TABLE_PROFILE, D, 2, new_alt_bound=None if tier == "quick" else 2)[0]:
        if st["kind"] != "select_into":
            add("gen:C01", sql)
        else:
            add("gen:C01", sqlgen.render(st, sqlgen.R(dialect="postgres")), "postgres")
    # statements that read or write file paths (C01's second ball), under a dialect that has the form
    from vmc.c01 import has_path

    for sql, (st, trace, ndev) in enumerate_cases(sqlgen.PATH_PROFILE, 1, 2)[0]:
        if has_path(st):
            d = "postgres" if st["kind"] in ("copy_from", "copy_to") else "sparksql"
            add("gen:C01paths", sqlgen.render(st, sqlgen.R(dialect=d)), d)
    for script in (
        "INSERT OVERWRITE DIRECTORY 'dir/p1/' SELECT c1, c2 FROM t1;\nINSERT INTO fin SELECT c1 FROM parquet.`dir/p1/`",
        "INSERT INTO stage SELECT c1, c2 FROM csv.`dir/in/`;\nINSERT OVERWRITE DIRECTORY 'dir/out/' SELECT c1 FROM stage",
        "INSERT INTO fin SELECT a.c1, b.c2 FROM parquet.`dir/p1/` a JOIN json.`dir/p2/` b ON 1 = 1",
    ):
        add("extra:paths", script, "sparksql")
    for script in ("COPY stage (c1, c2) FROM '/abs/in.csv';\nINSERT INTO fin SELECT c1 FROM stage;\nCOPY fin TO '/abs/out.csv'",
                   "COPY (SELECT a.c1, b.c2 FROM t1 a JOIN t2 b ON 1 = 1) TO '/abs/out.csv'"):
        add("extra:paths", script, "postgres")
    C = sqlgen.CENTRES
    plan = [("simple", C["simple"], D), ("join", C["join"], 1), ("derived", C["derived"], 1), ("cte", C["cte"], 1), ("star", C["star"], 1), ("setop", C["setop"], 1)]
    if tier != "quick":
        plan = [("simple", C["simple"], 3), ("join", C["join"], 2), ("derived", C["derived"], 2), ("cte", C["cte"], 2), ("star", C["star"], 2), ("setop", C["setop"], 2)]
    for sql, (st, trace, ndev, centre) in enumerate_plan(plan, 2)[0]:
        if st["kind"] == "select_into" or "item:pgcast" in sqlgen.features(st):
            add("gen:C02", sqlgen.render(st, sqlgen.R(dialect="postgres")), "postgres")
        else:
            add("gen:C02", sql)
    # C03 histories (depth <= 2 quick / 3 thorough on 2 tables, depth 2 on 3 tables) as real scripts
    for tables, depth in ((("a", "b", "c"), 2), (("a", "b"), 2 if tier == "quick" else 3)):
        letters = c03.alphabet(tables)
        for d in range(1, depth + 1):
            for hist in itertools.product(letters, repeat=d):
                add("gen:C03", ";\n".join(c03.render(ev, "star") for ev in hist))
    # C04 scripts with their providers
    for ch, c in explorer.explore(c04.gen_script, 2 if tier == "quick" else 3):
        script = ";\n".join(sqlgen.render(st, sqlgen.R(qualify=c04.S)) for st in c["stmts"])
        add("gen:C04", script, "ansi", c04.provider_map(c) or None)
    # C05 scripts
    for d in ("ansi", "mysql", "tsql"):
        for ch, c in explorer.explore(lambda ch, d=d: c05.gen_script(ch, d, 3), 1 if tier == "quick" else 2):
            add("gen:C05", c["text"], d)
    # tables fed by statements that read no dataset (constants through a derived table, VALUES, DDL), then read in part
    for first in ("INSERT INTO stage SELECT q.c, q.d FROM (SELECT 1 AS c, 2 AS d) q", "CREATE TABLE stage AS SELECT q.c, q.d FROM (SELECT 1 AS c, 2 AS d) q",
                  "INSERT INTO stage (c, d) VALUES (1, 2)", "CREATE TABLE stage (c int, d int)", "INSERT INTO stage SELECT 1 AS c, 2 AS d"):
        for rest in (["INSERT INTO fin SELECT c FROM stage"], ["INSERT INTO fin SELECT c FROM stage", "INSERT INTO fin2 SELECT d FROM stage"],
                     ["INSERT INTO fin SELECT s.c FROM stage s JOIN other o ON 1 = 1"], ["INSERT INTO stage SELECT c, d FROM src", "INSERT INTO fin SELECT c FROM stage"]):
            add("extra:constant-fed", ";\n".join([first] + rest))
    for sql in (
        "INSERT INTO report SELECT CASE WHEN a > 0 THEN (SELECT max(v) FROM t2) WHEN a < 0 THEN (SELECT max(w) FROM t3) ELSE 0 END AS m FROM t1",
        "INSERT INTO report SELECT CASE WHEN a > 0 THEN (SELECT max(v) FROM t2) ELSE (SELECT max(w) FROM t3) END AS m, b FROM t1",
        "INSERT INTO fin SELECT x.c1, x.c2 FROM tab AS x (c1, c2)",
        "INSERT INTO fin SELECT x.c1 FROM sch.tab AS x (c1, c2) JOIN other o ON 1 = 1",
        "INSERT INTO t1 SELECT s.a FROM (SELECT a FROM src) s;\nINSERT INTO t2 SELECT s.a FROM (SELECT a\n   FROM src) s",
        "WITH c AS (SELECT a FROM src) INSERT INTO t1 SELECT a FROM c;\nWITH c AS (SELECT a\nFROM src) INSERT INTO t2 SELECT a FROM c",
        "SELECT a.c FROM staging.t1 a;\nDROP TABLE staging.t1",
        "SELECT c FROM staging.t1;\nDROP TABLE staging.t1",
    ):
        add("extra:shapes", sql)
    for r in corpus.corpus():
        for d in corpus.dialects_of(r):
            add("corpus:" + r["id"], r["sql"], d, r["md"])
    return items


def make_runner(item, **kw):
    from sqllineage.core.metadata.dummy import DummyMetaDataProvider
    from sqllineage.runner import LineageRunner

    args = dict(dialect=item["dialect"])
    if item.get("md"):
        args["metadata_provider"] = DummyMetaDataProvider({k: list(v) for k, v in item["md"].items()})
    args.update(kw)
    return LineageRunner(item["sql"], **args)


# ------------------------------------------------------------------------------------------------
# C06
# ------------------------------------------------------------------------------------------------
def c06_monitor(r):
    """r: an evaluated LineageRunner -> list of (invariant, detail)"""
    import networkx as nx

    from sqllineage.core.holders import DATASET_CLASSES
    from sqllineage.core.models import Column, Path, SubQuery, Table
    from sqllineage.utils.constant import EdgeType

    bad = []
    holder = r._sql_holder
    g = holder.graph
    colg = holder.column_lineage_graph
    tabg = holder.table_lineage_graph
    src, tgt, mid = set(r.source_tables), set(r.target_tables), set(r.intermediate_tables)
    paths = r.get_column_lineage()
    full_paths = r.get_column_lineage(exclude_path_ending_in_subquery=False)
    for p in paths:
        if len(p) < 2:
            bad.append(("I1", f"one-node path {[str(c) for c in p]}"))
            continue
        for a, b in zip(p, p[1:]):
            if not colg.has_edge(a, b):
                bad.append(("I2", f"{a} -> {b} is not a direct edge"))
        if colg.in_degree(p[0]) != 0:
            bad.append(("I3", f"path starts at {p[0]} which has incoming lineage"))
        owner = p[-1].parent
        if not isinstance(owner, DATASET_CLASSES) or owner not in (tgt | mid):
            bad.append(("I4", f"last column {p[-1]} is owned by {owner!r}, not a target/intermediate table"))
        s = p[0]
        if s.parent is not None and isinstance(s.parent, (Table, Path)):
            if s.parent not in (src | mid) and not (s.parent in tgt and s.parent in src):
                bad.append(("I5", f"source column {s}: its table is not read by the script"))
            elif isinstance(owner, DATASET_CLASSES) and owner in tabg and s.parent in tabg and s.parent != owner and not nx.has_path(tabg, s.parent, owner):
                bad.append(("I5", f"no table-level path {s.parent} -> {owner}"))
    # the two flags of get_column_lineage are views of the same paths
    compact = r.get_column_lineage(exclude_subquery_columns=True)
    again = r.get_column_lineage()
    if [tuple(map(str, p)) for p in again] != [tuple(map(str, p)) for p in paths]:
        bad.append(("I2", "get_column_lineage() changed after calling it with other flags"))
    for p in compact:
        if any(isinstance(c.parent, SubQuery) for c in p):
            bad.append(("I2", "exclude_subquery_columns=True returned a subquery column"))
    # graph consistency
    for n in list(g.nodes):
        if n not in g or not g.has_node(n):
            bad.append(("I6", f"node {n!r} not retrievable"))
            continue
        if isinstance(n, Column):
            owners = [u for u, _, t in g.in_edges(n, data="type") if t == EdgeType.HAS_COLUMN]
            if len(n.parent_candidates) == 1:
                twin = Column(n.raw_name)
                twin.parent = n.parent
                if not g.has_node(twin) or hash(twin) != hash(n):
                    bad.append(("I6", f"column {n} is not retrievable through an equal object"))
                if len(owners) != 1 or owners[0] != n.parent:
                    bad.append(("I7", f"resolved column {n} has owners {[str(o) for o in owners]}"))
        elif isinstance(n, Table):
            twin = Table(str(n))
            if not g.has_node(twin) or hash(twin) != hash(n):
                bad.append(("I6", f"table {n} is not retrievable through an equal object"))
    for a, b in itertools.combinations([n for n in g.nodes if isinstance(n, (Table, Column))][:60], 2):
        if a == b and hash(a) != hash(b):
            bad.append(("I6", f"equal nodes with different hashes: {a}"))
    return bad


# ------------------------------------------------------------------------------------------------
# C18
# ------------------------------------------------------------------------------------------------
def c18_monitor(r, item=None):
    from sqllineage.core.models import Column
    from sqllineage.utils.constant import LineageLevel

    bad = []
    holder = r._sql_holder
    summary1 = str(r)
    tab = r.to_cytoscape()
    col = r.to_cytoscape(LineageLevel.COLUMN)
    for level, lst in (("table", tab), ("column", col)):
        nodes = [d["data"] for d in lst if "source" not in d["data"]]
        edges = [d["data"] for d in lst if "source" in d["data"]]
        ids = [n["id"] for n in nodes]
        if len(ids) != len(set(ids)):
            dup = sorted({i for i in ids if ids.count(i) > 1})
            bad.append(("X1", f"{level}: duplicate node ids {dup[:3]}"))
        idset = set(ids)
        eids = [e["id"] for e in edges]
        if len(eids) != len(set(eids)):
            bad.append(("X1", f"{level}: duplicate edge ids"))
        for e in edges:
            if e["source"] not in idset or e["target"] not in idset:
                bad.append(("X2", f"{level}: edge {e['source']} -> {e['target']} has an endpoint that is not an exported node"))
        for n in nodes:
            if "parent" in n and n["parent"] not in idset:
                bad.append(("X2", f"{level}: parent {n['parent']} of {n['id']} is not an exported node"))
    # X3 table level
    tg = holder.table_lineage_graph
    t_ids = {d["data"]["id"] for d in tab if "source" not in d["data"]}
    t_edges = sorted((d["data"]["source"], d["data"]["target"]) for d in tab if "source" in d["data"])
    if t_ids != {str(n) for n in tg.nodes}:
        bad.append(("X3", f"table export ids differ from the table graph: {sorted(t_ids ^ {str(n) for n in tg.nodes})[:4]}"))
    if t_edges != sorted((str(a), str(b)) for a, b in tg.edges):
        bad.append(("X3", "table export edges differ from the table graph"))
    roles = {str(t) for t in r.source_tables} | {str(t) for t in r.target_tables} | {str(t) for t in r.intermediate_tables}
    if not roles <= t_ids:
        bad.append(("X3", f"tables of the summary missing from the export: {sorted(roles - t_ids)[:4]}"))
    # X4 column level
    cg = holder.column_lineage_graph
    c_nodes = [d["data"] for d in col if "source" not in d["data"] and d["data"].get("type") == "Column"]
    c_edges = sorted((d["data"]["source"], d["data"]["target"]) for d in col if "source" in d["data"])
    if sorted(n["id"] for n in c_nodes) != sorted(str(n) for n in cg.nodes):
        bad.append(("X4", "column export nodes differ from the column graph"))
    if c_edges != sorted((str(a), str(b)) for a, b in cg.edges):
        bad.append(("X4", "column export edges differ from the column graph"))
    by_id = {}
    for n in cg.nodes:
        by_id.setdefault(str(n), []).append(n)
    for n in c_nodes:
        cands = by_id.get(n["id"], [])
        if len(cands) == 1:
            exp_parent = str(cands[0].parent) if cands[0].parent is not None else "<unknown>"
            if n.get("parent") != exp_parent:
                bad.append(("X4", f"column {n['id']} exported under parent {n.get('parent')}, its owner is {exp_parent}"))
    on_paths = {str(c) for p in r.get_column_lineage(exclude_path_ending_in_subquery=False) for c in p}
    if not on_paths <= {n["id"] for n in c_nodes}:
        bad.append(("X4", "a column on a reported path is missing from the export"))
    # X5 text summary
    summary2 = str(r)
    if summary1 != summary2:
        bad.append(("X5", "str(runner) differs between two calls"))
    bad += check_summary(summary2, r)
    return bad


def check_summary(text, r):
    bad = []
    sections = {"Source Tables:": [], "Target Tables:": [], "Intermediate Tables:": []}
    cur = None
    body = text.split("==========\nSummary:\n")[-1]
    for line in body.splitlines():
        if line.strip() in sections:
            cur = line.strip()
        elif line.startswith("    ") and cur and line.strip():
            sections[cur].append(line.strip())
        elif line.startswith("Statements(#):"):
            cur = None
    for name, lst, acc in (("Source Tables:", sections["Source Tables:"], r.source_tables), ("Target Tables:", sections["Target Tables:"], r.target_tables),
                           ("Intermediate Tables:", sections["Intermediate Tables:"], r.intermediate_tables)):
        exp = [str(t) for t in acc]
        if lst != exp:
            bad.append(("X5", f"summary section {name} lists {lst[:4]}, accessor gives {exp[:4]}"))
        if exp != sorted(exp) or len(exp) != len(set(exp)):
            bad.append(("X5", f"{name} accessor not sorted / not unique"))
    return bad


def evaluate(item, which):
    """-> {"exception": ...} | {"violations": [(inv, detail)]}"""
    try:
        r = make_runner(item)
        r._eval()
    except Exception as e:  # noqa - not every corpus item is valid under every dialect it is listed for
        return {"exception": type(e).__name__}
    out = []
    if "C06" in which:
        out += [("C06", i, d) for i, d in c06_monitor(r)]
        # the flag views in the other call order, on a fresh runner: the widest view first, the default one afterwards
        r0 = make_runner(item)
        sig = lambda ps: sorted(tuple(observe.Anon()(str(c)) for c in p) for p in ps)  # noqa: E731
        full0 = sig(r0.get_column_lineage(exclude_path_ending_in_subquery=False))
        compact0 = sig(r0.get_column_lineage(exclude_subquery_columns=True))
        default0 = sig(r0.get_column_lineage())
        if default0 != sig(r.get_column_lineage()):
            out.append(("C06", "I2", "get_column_lineage() differs when the flag variants were called first on the same object"))
        if full0 != sig(r.get_column_lineage(exclude_path_ending_in_subquery=False)) or compact0 != sig(r.get_column_lineage(exclude_subquery_columns=True)):
            out.append(("C06", "I2", "a flag variant of get_column_lineage() depends on the call order"))
    if "C18" in which:
        # accessor-order dimension: a fresh runner whose first access is the export / the summary
        out += [("C18", i, d) for i, d in c18_monitor(r, item)]
        if not item.get("web", True):
            return {"violations": out}
        r2 = make_runner(item)
        tgt_first = [str(t) for t in r2.target_tables]
        s = str(r2)
        out += [("C18", i, d + " (target_tables read before the summary)") for i, d in check_summary(s, r2)]
        r3 = make_runner(item)
        from sqllineage.utils.constant import LineageLevel

        c3 = r3.to_cytoscape(LineageLevel.COLUMN)
        if observe.cyto_canon(c3) != observe.cyto_canon(r.to_cytoscape(LineageLevel.COLUMN)) and "subquery_" not in json.dumps(c3):
            out.append(("C18", "X4", "column export differs when it is the first accessor called"))
    return {"violations": out}
