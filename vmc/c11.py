"""C11 - analysis is deterministic.

E4 (vmc/hashctl.py): for every script the hash values of the library's model objects are enumerated - all |N|!
assignments for scripts with <= 6 hash-relevant names, every ordered pair (thorough: triple) of names at the front of
the order beyond that (corpus statements with more than 24 names: every single name at the front) - and the full public observation must be the same under all of them. In addition: all 24
orders of {source_tables, get_column_lineage, to_cytoscape, str} with every accessor called twice on one runner (for
scripts that raise: every call must raise what a fresh runner raises); every ordered pair / triple of the flag variants
of get_column_lineage and the column-level export on one runner against a fresh runner per variant;
the same script analysed repeatedly in one process and on one reused provider; and, as conformance of the hash model
to real processes, subprocesses with different PYTHONHASHSEED whose observation must lie in the outcome set E4 found.
"""
from __future__ import annotations

import itertools
import json
import os
import subprocess
import sys

from vmc import common, hashctl, observe
from vmc.common import HarnessError, Report, pmap

MD1 = {"s.a": ["id", "x", "k"], "s.b": ["id", "y", "k"], "s.c": ["z"]}
SCRIPTS = [
    ("reads3", "ansi", "insert into t select a.x, b.y, c.z from a join b on a.id = b.id join c on 1 = 1", None),
    ("using", "ansi", "insert into t select id, x from a join b using (id)", None),
    ("star-join", "ansi", "insert into t select * from a join b on 1 = 1", None),
    ("star-join-md-shared-id", "ansi", "insert into s.t select * from s.a join s.b on s.a.id = s.b.id", MD1),
    ("star-join-md-disjoint", "ansi", "insert into s.t select * from s.a join s.c on 1 = 1", {"s.a": ["x1", "x2"], "s.c": ["z"]}),
    ("unq-md", "ansi", "insert into s.t select x, y, k from s.a join s.b on 1 = 1", MD1),
    ("unq-3", "ansi", "insert into t select x from a, b, c", None),
    ("rename2", "mysql", "insert into b select * from a; rename table b to c, c to d", None),
    ("rename-swap", "mysql", "insert into a select * from s1; insert into b select * from s2; rename table a to tmp, b to a, tmp to b", None),
    ("cte-sub", "ansi", "with c1 as (select x from a), c2 as (select x from c1 join b on 1 = 1) insert into t select x from c2 where x in (select x from d)", None),
    ("union-2col", "ansi", "insert into tgt select a, b from x union all select c, d from y", None),
    ("union-3col-ctas", "ansi", "create table tgt as select a, b, c from x union all select d, e, f from y union select g, h, i from z", None),
    ("same-name-two-schemas", "ansi", "insert into t select orders.id, a.id as id2 from orders join archive.orders a on orders.id = a.id", None),
    ("target-only+selfloop", "ansi", "create table t (a int); insert into u values (1); insert into v select * from v; insert into w select * from t", None),
    ("session-star", "ansi", "create table s.m as select x, k from s.a; insert into s.t select * from s.m", MD1),
    ("session-unq", "ansi", "create table s.m as select x, k from s.a; insert into s.t select x, z from s.m join s.c on 1 = 1", MD1),
    ("session-read-before-create", "ansi", "insert into s.t select * from s.m; create table s.m as select x, k from s.a; insert into s.u select * from s.m", MD1),
    ("diamond", "ansi", "insert into m1 select c1, c2 from s; insert into m2 select c1, c2 from s; insert into f select m1.c1, m2.c2 from m1 join m2 on 1 = 1", None),
    ("merge", "ansi", "merge into tgt t using (select id, v from src join src2 on 1 = 1) s on t.id = s.id when matched then update set t.v = s.v when not matched then insert (id, v) values (s.id, s.v)", None),
    ("update-from", "ansi", "update t set a = x.b, c = y.d from x join y on 1 = 1", None),
    ("drop-rename", "ansi", "insert into a select * from s; insert into b select * from a; drop table s2; alter table b rename to c; select * from c", None),
    ("subquery-twice", "ansi", "insert into t select x.a, y.a as b from (select a from t1) x join (select a from t2) y on 1 = 1", None),
    ("same-alias-two-scopes", "ansi", "insert into t select p.a, q.b from (select a from (select a from t1) s) p join (select b from (select b from t2) s) q on 1 = 1", None),
    ("unresolved-merge", "ansi", "insert into t1 select c from a, b; insert into t2 select c from d, e", None),
    ("lateral-alias", "ansi", "insert into t select a + 1 as b, b + 1 as c from x", None),
    ("legacy-join", "non-validating", "insert into t select a.x, b.y from a join b on a.id = b.id, c", None),
    ("legacy-union", "non-validating", "insert into tgt select a, b from x union all select c, d from y", None),
    ("paths", "sparksql", "insert overwrite directory 'hdfs://p/out' select a from parquet.`hdfs://p/in1` join parquet.`hdfs://p/in2` on 1 = 1", None),
    ("multi-write-error", "postgres", "insert into a select x into b from c", None),
    ("case-subquery", "ansi", "insert into t select case when (select max(a) from s1) > 0 then (select max(b) from s2) else 0 end as c, d from s3", None),
    ("tsql-batch", "tsql", "select a into t1 from s1; insert into t2 select a from t1 join s2 on 1 = 1", None),
    ("sibling-subqueries-md", "ansi", "insert into s.t select x.id, y.id as id2 from (select id from s.a join s.b on 1 = 1) x join (select id from s.c join s.d on 1 = 1) y on 1 = 1",
     {"s.a": ["id", "x"], "s.b": ["y"], "s.c": ["z"], "s.d": ["id", "k"]}),
    ("sibling-subqueries-3", "ansi", "insert into t select x.id, y.id as id2, z.id as id3 from (select id from a, b) x, (select id from c, d) y, (select id from e, f) z", None),
    ("unused-subquery-column", "ansi", "insert into t select s.a from (select a, extra from x) s; with c as (select p, q from y) insert into u select p from c", None),
    ("unsupported-midway", "ansi", "insert into t select a from x; grant select on t to u1; insert into v select a from t", None),
    ("syntax-error-midway", "ansi", "insert into t select a from x; select from where; insert into v select a from t", None),
]


def make(item, provider=None):
    from sqllineage.core.metadata.dummy import DummyMetaDataProvider
    from sqllineage.runner import LineageRunner

    sid, dialect, sql, md = item
    kw = {"dialect": dialect}
    if provider is not None:
        kw["metadata_provider"] = provider
    elif md:
        kw["metadata_provider"] = DummyMetaDataProvider({k: list(v) for k, v in md.items()})
    return LineageRunner(sql, **kw)


def obs_of(item, provider=None):
    sid, dialect, sql, md = item
    from sqllineage.core.metadata.dummy import DummyMetaDataProvider

    prov = provider if provider is not None else (DummyMetaDataProvider({k: list(v) for k, v in md.items()}) if md else None)
    o = observe.observe(sql, dialect, provider=prov, level="full")
    o.pop("warnings", None)
    return o


_MEMO = {}


def memoise_parse():
    from sqllineage.core.parser.sqlfluff.analyzer import SqlFluffLineageAnalyzer as A

    if getattr(A, "_vmc_memo", False):
        return
    orig = A._list_specific_statement_segment

    def memo(self, sql):
        k = (self._sqlfluff_config.get("dialect"), sql)
        if k not in _MEMO:
            try:
                _MEMO[k] = ("ok", orig(self, sql))
            except Exception as e:  # noqa
                _MEMO[k] = ("exc", e)
        tag, v = _MEMO[k]
        if tag == "exc":
            raise v
        return v

    A._list_specific_statement_segment = memo
    A._vmc_memo = True


ACCESSORS = {
    "source_tables": lambda r: [str(t) for t in r.source_tables] + [str(t) for t in r.target_tables] + [str(t) for t in r.intermediate_tables],
    "get_column_lineage": lambda r: sorted([observe.col_str(c, observe.Anon()) for c in p] for p in r.get_column_lineage()),
    "to_cytoscape": lambda r: observe.cyto_canon(r.to_cytoscape()),
    "str": lambda r: observe.Anon()(str(r)),
}
_PATHS = lambda r, **kw: sorted([observe.col_str(c, observe.Anon()) for c in p] for p in r.get_column_lineage(**kw))  # noqa: E731
# the same accessor under its other flag settings: what one call computed must not leak into a call with other flags
FLAG_ACCESSORS = {
    "get_column_lineage": ACCESSORS["get_column_lineage"],
    "paths(keep-subquery-ends)": lambda r: _PATHS(r, exclude_path_ending_in_subquery=False),
    "paths(no-subquery-columns)": lambda r: _PATHS(r, exclude_subquery_columns=True),
    "paths(keep-ends,no-subquery-columns)": lambda r: _PATHS(r, exclude_path_ending_in_subquery=False, exclude_subquery_columns=True),
    "cytoscape(column)": lambda r: observe.cyto_canon(r.to_cytoscape(level=__import__("sqllineage.utils.constant", fromlist=["LineageLevel"]).LineageLevel.COLUMN)),
}


def _call(f, r):
    """an accessor's answer, or the class of the exception it raises"""
    try:
        return json.dumps(f(r), sort_keys=True, default=str)
    except Exception as e:  # noqa
        return "raises " + type(e).__name__


def flag_orders(item):
    """every ordered pair and triple of flag variants on one runner, against each variant's answer on a fresh runner;
    for scripts that raise: every order of the four basic accessors, each call must raise what a fresh runner raises"""
    bad = []
    n = 0
    base = {k: _call(f, make(item)) for k, f in FLAG_ACCESSORS.items()}
    for order in itertools.chain(itertools.permutations(FLAG_ACCESSORS, 2), itertools.permutations(list(FLAG_ACCESSORS)[:4], 3)):
        r = make(item)
        for k in order:
            n += 1
            got = _call(FLAG_ACCESSORS[k], r)
            if got != base[k]:
                bad.append({"order": list(order), "accessor": k, "fresh_runner": base[k][:300], "this_runner": got[:300]})
                break
    base2 = {k: _call(f, make(item)) for k, f in ACCESSORS.items()}
    if any(v.startswith("raises ") for v in base2.values()):
        for order in itertools.permutations(ACCESSORS):
            r = make(item)
            for k in order:
                for rep_ in (1, 2):
                    n += 1
                    got = _call(ACCESSORS[k], r)
                    if got != base2[k]:
                        bad.append({"order": list(order), "accessor": k, "call": rep_, "fresh_runner": base2[k][:300], "this_runner": got[:300]})
                        break
    return n, bad[:3]


def accessor_orders(item):
    """all 24 orders, each accessor twice in a row, on one runner; every answer must equal the baseline answer"""
    base = {}
    try:
        r0 = make(item)
        for k, f in ACCESSORS.items():
            base[k] = json.dumps(f(r0), sort_keys=True, default=str)
    except Exception as e:  # noqa
        return 0, []  # scripts that raise are covered by the hash part
    bad = []
    n = 0
    for order in itertools.permutations(ACCESSORS):
        r = make(item)
        for k in order:
            for rep_ in (1, 2):
                n += 1
                got = json.dumps(ACCESSORS[k](r), sort_keys=True, default=str)
                if got != base[k]:
                    bad.append({"order": list(order), "accessor": k, "call": rep_})
                    break
    return n, bad[:3]


def _eval(task):
    item, front, full_limit = task
    memoise_parse()
    hashctl.install()
    try:
        names = hashctl.discover(lambda: obs_of(item))
        if item[0].startswith("corpus:") and len(names) > 24:
            front = 1  # long corpus statements: every name once at the front of the order
        outcomes = {}
        n = 0
        first_by_outcome = {}
        for assign in hashctl.assignments(names, full_limit=full_limit, front=front):
            hashctl.set_assignment(assign)
            o = obs_of(item)
            n += 1
            d = common.digest(o)
            outcomes[d] = outcomes.get(d, 0) + 1
            if d not in first_by_outcome:
                first_by_outcome[d] = (assign, o)
        hashctl.set_assignment({})
    finally:
        hashctl.uninstall()
    # repetitions in one process, and on one reused provider
    rep_bad = []
    o1 = obs_of(item)
    for _ in range(2):
        if obs_of(item) != o1:
            rep_bad.append("repetition in the same process differs")
    if item[3]:
        from sqllineage.core.metadata.dummy import DummyMetaDataProvider

        prov = DummyMetaDataProvider({k: list(v) for k, v in item[3].items()})
        first = obs_of(item, provider=prov)
        for _ in range(2):
            if obs_of(item, provider=prov) != first:
                rep_bad.append("repetition on one reused provider differs")
        if first != o1:
            rep_bad.append("reused provider differs from a fresh provider")
    n_acc, acc_bad = accessor_orders(item)
    n_flag, flag_bad = flag_orders(item)
    n_acc += n_flag
    acc_bad = acc_bad + flag_bad
    return {
        "names": len(names), "assignments": n, "outcomes": outcomes, "mode": "full" if len(names) <= full_limit else f"front-{front}",
        "examples": {d: {"assignment": a, "observation": {k: o.get(k) for k in ("source", "target", "intermediate", "pairs", "exception")}} for d, (a, o) in list(first_by_outcome.items())[:3]},
        "default_outcome": common.digest(o1), "rep_bad": rep_bad, "accessor_calls": n_acc, "accessor_bad": acc_bad,
    }


SEED_WORKER = r"""
import json, sys, warnings
warnings.simplefilter("ignore")
import logging; logging.disable(logging.CRITICAL)
from vmc import c11, common
items = json.load(sys.stdin)
print(json.dumps([common.digest(c11.obs_of(tuple(i))) for i in items]))
"""


def _real_seed(args):
    seed, items = args
    env = dict(os.environ)
    env["PYTHONHASHSEED"] = str(seed)
    p = subprocess.run([sys.executable, "-c", SEED_WORKER], input=json.dumps(items), capture_output=True, text=True, env=env, cwd=os.getcwd())
    if p.returncode != 0:
        raise HarnessError("real-seed worker failed: " + p.stderr[-600:])
    return json.loads(p.stdout)


def run(tier: str, opts: dict) -> int:
    rep = Report("C11", tier, "model_checking")
    items = list(SCRIPTS)
    if tier != "quick":
        from vmc import corpus

        for r in corpus.corpus(("tests", "docs")):
            for d in corpus.dialects_of(r):
                items.append(("corpus:" + r["id"] + "@" + d, d, r["sql"], r["md"]))
        for r in corpus.corpus(("tpcds",))[:20]:
            items.append(("corpus:" + r["id"], "ansi", r["sql"], None))
    front = 2 if tier == "quick" else 3
    tasks = []
    for it in items:
        f = front if not it[0].startswith("corpus:") else 2
        tasks.append((it, f, 6 if not it[0].startswith("corpus:") else 5))
    res = pmap(_eval, tasks, chunk=1)
    seeds = [1, 2, 3, 4] if tier == "quick" else list(range(1, 33))
    real = pmap(_real_seed, [(s, [list(i) for i in items]) for s in seeds], chunk=1)
    regen = opts.get("regen_pins")
    new_pins = {}
    states = transitions = 0
    multi = 0
    for k, (it, r) in enumerate(zip(items, res)):
        states += r["assignments"]
        transitions += r["assignments"] + r["accessor_calls"]
        for b in r["rep_bad"]:
            rep.violation("repetition-differs", {"script": it[0], "dialect": it[1], "sql": it[2], "md": it[3]}, b)
        for b in r["accessor_bad"]:
            rep.violation("accessor-order-changes-answer", {"script": it[0], "dialect": it[1], "sql": it[2], "md": it[3]}, b)
        outs = sorted(r["outcomes"])
        for s, digs in zip(seeds, real):
            if digs[k] not in r["outcomes"]:
                if len(outs) == 1:
                    rep.violation("real-hash-seed-gives-another-answer", {"script": it[0], "dialect": it[1], "sql": it[2], "md": it[3], "PYTHONHASHSEED": s},
                                  {"controlled_hashing_outcomes": outs, "real": digs[k]})
                else:
                    raise HarnessError(f"E4 outcome set of {it[0]} does not contain what PYTHONHASHSEED={s} produces")
        if len(outs) > 1:
            multi += 1
            key = f"{it[1]}|{json.dumps(it[3], sort_keys=True) if it[3] else '-'}|{it[2]}"
            dg = common.digest(outs)
            if regen:
                new_pins[key] = ["F-C11-star-over-tables-sharing-a-column-name", dg]
                print("multi-outcome:", it[0], r["outcomes"], json.dumps(r["examples"], default=str)[:700])
                continue
            fid = rep.findings.pinned(key, dg)
            if fid:
                rep.known_finding(fid)
            else:
                rep.violation("outcome-depends-on-hash-order", {"script": it[0], "dialect": it[1], "sql": it[2], "md": it[3]},
                              {"outcomes": r["outcomes"], "examples": r["examples"], "mode": r["mode"], "names": r["names"]})
    if regen:
        from vmc.c01 import _write_pins

        return _write_pins("C11", new_pins, [], replace=(tier == "thorough"))
    rep.coverage.update(
        states=states,
        transitions=transitions,
        traces_validated_against_impl=len(seeds) * len(items),
        evaluations=transitions,
        distinct_nontrivial=sum(1 for r in res if r["names"] >= 3),
        samples=[{"script": it[0], "sql": it[2][:160], "hash_relevant_names": r["names"], "assignments": r["assignments"], "mode": r["mode"], "distinct_outcomes": len(r["outcomes"])}
                 for it, r in list(zip(items, res))[:6]],
        rule="states = hash assignments executed (all |N|! for |N| <= 6 names, every ordered pair / triple of names at the front beyond); per script also 24 accessor orders x 2 calls "
        "on one runner, 3 repetitions in-process and on one reused provider; conformance: real PYTHONHASHSEED subprocesses must land in the outcome set",
        exhaustive=True,
        scripts=len(items),
        scripts_with_more_than_one_outcome=multi,
        real_hash_seeds=seeds,
        assignments_by_script={it[0]: [r["names"], r["assignments"], r["mode"]] for it, r in list(zip(items, res))[:40]},
    )
    rep.assumptions += [
        "E4's completeness argument covers sets of the five model classes (ascending-hash iteration, self-tested); iteration order of sets of plain str inside third-party code is left to the real-seed runs, which are a sample",
        "order dependence that needs the relative order of more than 2 (quick) / 3 (thorough) specific names among > 6 is outside the bound",
    ]
    return rep.finish()


def replay(body: dict, opts: dict) -> int:
    c = body["case"]
    it = (c["script"], c["dialect"], c["sql"], c["md"])
    r = _eval((it, 2, 6))
    print(json.dumps({k: r[k] for k in ("names", "assignments", "outcomes", "rep_bad", "accessor_bad", "mode")}, indent=1, default=str)[:2500])
    bad = r["rep_bad"] or r["accessor_bad"] or len(r["outcomes"]) > 1
    if not bad:
        print("OK on replay")
        return 0
    if len(r["outcomes"]) > 1 and not r["rep_bad"] and not r["accessor_bad"]:
        key = f"{it[1]}|{json.dumps(it[3], sort_keys=True) if it[3] else '-'}|{it[2]}"
        if common.Findings("C11").pinned(key, common.digest(sorted(r["outcomes"]))):
            print("KNOWN-FINDING: property=C11 F-C11-star-over-tables-sharing-a-column-name")
            return 0
    print(f"VIOLATION property=C11 replay={opts.get('path', '<replayed>')}")
    return 1
