"""C15 - configuration overrides are scoped and thread-local.

(a) operation level, E2: explicit-state BFS to a fixpoint over the real `_SQLLineageConfigLoader` object;
    transitions = (virtual thread, operation) through the `get_ident` seam plus environment flips; in every
    state every key is read from every thread and compared with a reference model (stack of override dicts
    per thread; top-most override if the key is present - even if falsy -, else typed environment value, else
    default). A fixpoint covers every program of any length and every interleaving at operation granularity.
(b) sub-operation level, E3: real threads, LINE events on every function of config.py, all pairs of small
    programs, every schedule up to a preemption bound; each thread's reads must equal the reference for its
    own program (thread-locality), and afterwards a thread re-using either identifier reads defaults.
(c) consumers: the runner analyses lazily; for every key it reads, every pair (context of construction, context of
    analysis) - same thread after the scope ended normally / by exception, or a scope still open in another thread -
    must give what constructing and analysing in the analysis context gives.
"""
from __future__ import annotations

import collections
import itertools
import json
import os
import sys
import threading
import time

from vmc import common, sched
from vmc.common import HarnessError, Report, pmap

KEYS = ["DIRECTORY", "DEFAULT_SCHEMA", "TSQL_NO_SEMICOLON", "LATERAL_COLUMN_ALIAS_REFERENCE"]
TYPES = {"DIRECTORY": str, "DEFAULT_SCHEMA": str, "TSQL_NO_SEMICOLON": bool, "LATERAL_COLUMN_ALIAS_REFERENCE": bool}
ENVS = [
    {},
    {"SQLLINEAGE_TSQL_NO_SEMICOLON": "true", "SQLLINEAGE_DEFAULT_SCHEMA": "envschema"},
    {"SQLLINEAGE_TSQL_NO_SEMICOLON": "0", "SQLLINEAGE_LATERAL_COLUMN_ALIAS_REFERENCE": "Yes", "SQLLINEAGE_DIRECTORY": "/envdir"},
]
OPENS = [
    {"DEFAULT_SCHEMA": "a"},
    {"DEFAULT_SCHEMA": "b", "TSQL_NO_SEMICOLON": False},  # falsy override while the environment says true
    {"DEFAULT_SCHEMA": ""},  # falsy string override
    {"TSQL_NO_SEMICOLON": "yes"},  # coercion str -> bool
    {"LATERAL_COLUMN_ALIAS_REFERENCE": 5, "DIRECTORY": 7},  # coercion int -> bool, int -> str
    {"TSQL_NO_SEMICOLON": "off"},
    {"DEFAULT_SCHEMA": 1},  # equal-but-differently-typed values: 1 / True / 1.0 coerce to '1' / 'True' / '1.0'
    {"DEFAULT_SCHEMA": True},
    {"DEFAULT_SCHEMA": 1.0, "TSQL_NO_SEMICOLON": 0},
    {"TSQL_NO_SEMICOLON": "0", "DIRECTORY": False},
    {"BOGUS": 1},  # unknown key
    {"DEFAULT_SCHEMA": "c", "BOGUS": 1},  # valid then unknown
    {"BOGUS": 1, "DEFAULT_SCHEMA": "c"},  # unknown then valid
]
FIRST_INVALID = next(i for i, o in enumerate(OPENS) if "BOGUS" in o)
TRUTHY = ("true", "on", "ok", "y", "yes", "1")


def ref_coerce(value, typ):
    """reference coercion, written from the documented behaviour (not by calling the code)"""
    if typ is bool:
        if isinstance(value, bool):
            return value
        try:
            return int(value) != 0
        except ValueError:
            return value.lower().strip() in TRUTHY
    return str(value)


def ref_default(cfg_cls, key):
    return cfg_cls.config[key][1]


def ref_visible(cfg_cls, stack, env: dict, key: str):
    if stack and key in stack[-1]:
        return stack[-1][key]
    raw = env.get("SQLLINEAGE_" + key, ref_default(cfg_cls, key))
    return ref_coerce(raw, TYPES[key])


def set_env(env: dict) -> None:
    for k in list(os.environ):
        if k.startswith("SQLLINEAGE_") and k != common.GUARD:
            del os.environ[k]
    os.environ.update(env)


# ================================================================================================
# (a) operation-level BFS
# ================================================================================================
NT = 3
CUR = [0]
_SEAM: dict = {}


def restore_seam():
    if "orig" in _SEAM:
        from sqllineage.config import _SQLLineageConfigLoader

        _SQLLineageConfigLoader.get_ident = _SEAM.pop("orig")


def ident_of(t):
    """virtual thread 0 carries the identifier of the real main thread (code that treats the main thread specially is in scope)"""
    return threading.main_thread().ident if t == 0 else 100 + t


def _ops():
    ops = [("open", i) for i in range(len(OPENS))]
    ops += [("close", 0), ("close_exc", 0), ("close_sysexit", 0), ("close_genexit", 0), ("close_kbd", 0)]
    ops += [("assign", k) for k in ("DEFAULT_SCHEMA", "TSQL_NO_SEMICOLON")]
    return ops


def build(hist):
    """fresh real object + reference, history replayed; returns (cfg, stacks, env_idx, problems)"""
    from sqllineage.config import _SQLLineageConfigLoader
    from sqllineage.exceptions import ConfigException

    if "orig" not in _SEAM:
        _SEAM["orig"] = _SQLLineageConfigLoader.__dict__["get_ident"]
    _SQLLineageConfigLoader.get_ident = staticmethod(lambda: CUR[0])
    cfg = _SQLLineageConfigLoader()
    stacks = {t: [] for t in range(NT)}
    env_idx = 0
    set_env(ENVS[0])
    problems = []
    for step, (t, op, arg) in enumerate(hist):
        last = step == len(hist) - 1
        if op == "env":
            env_idx = arg
            set_env(ENVS[env_idx])
        else:
            CUR[0] = ident_of(t)
            if op == "open":
                kw = OPENS[arg]
                accepted = True
                try:
                    cm = cfg(**kw)
                    cm.__enter__()
                except ConfigException:
                    accepted = False
                except Exception as e:  # noqa
                    accepted = False
                    if last:
                        problems.append(("open-raised-foreign-exception", type(e).__name__))
                valid = all(k in TYPES for k in kw) and not stacks[t]
                if valid:
                    stacks[t].append({k: ref_coerce(v, TYPES[k]) for k, v in kw.items()})
                if accepted != valid and last:
                    problems.append(("open-accepted" if accepted else "open-rejected", kw))
            elif op.startswith("close"):
                if not stacks[t]:
                    raise HarnessError("close not enabled")
                et = {"close": None, "close_exc": ValueError, "close_sysexit": SystemExit, "close_genexit": GeneratorExit, "close_kbd": KeyboardInterrupt}[op]
                exc = (et, et("x"), None) if et else (None, None, None)
                swallowed = cfg.__exit__(*exc)
                stacks[t].pop()
                if swallowed and op != "close" and last:
                    problems.append(("exit-swallows-exception", None))
            elif op == "assign":
                try:
                    setattr(cfg, arg, "zzz")
                    if last:
                        problems.append(("assignment-accepted", arg))
                except ConfigException:
                    pass
        if last:
            env = ENVS[env_idx]
            for tt in range(NT):
                CUR[0] = ident_of(tt)
                for k in KEYS:
                    exp = ref_visible(type(cfg), stacks[tt], env, k)
                    try:
                        got = getattr(cfg, k)
                    except Exception as e:  # noqa
                        problems.append(("read-raised", (tt, k, type(e).__name__)))
                        continue
                    if got != exp or type(got) is not type(exp):
                        problems.append(("read", {"thread": tt, "key": k, "got": repr(got), "expected": repr(exp)}))
    return cfg, stacks, env_idx, problems


def canon(cfg, stacks, env_idx):
    impl = repr(sorted((k, repr(sorted(v.items(), key=repr)) if isinstance(v, dict) else repr(sorted(v, key=repr)) if isinstance(v, (set, frozenset)) else repr(v)) for k, v in vars(cfg).items()))
    return (impl, json.dumps(stacks, sort_keys=True), env_idx)


def enabled(stacks, env_idx, hist, max_env_flips: int):
    evs = []
    for t in range(NT):
        for op, arg in _ops():
            if op.startswith("close") and not stacks[t]:
                continue
            evs.append((t, op, arg))
    flips = sum(1 for h in hist if h[1] == "env")
    if flips < max_env_flips:
        for j in range(len(ENVS)):
            if j != env_idx:
                evs.append((-1, "env", j))
    return evs


def op_level(rep: Report, max_depth: int, max_env_flips: int):
    t0 = time.time()
    cfg, stacks, env_idx, _ = build([])
    seen = {canon(cfg, stacks, env_idx): []}
    frontier = collections.deque([[]])
    transitions = 0
    depth_reached = 0
    fixpoint = True
    nontrivial = 0
    bad_seen = set()
    sample_hist = []
    while frontier:
        hist = frontier.popleft()
        _, stacks, env_idx, _ = build(hist)
        if len(hist) >= max_depth:
            fixpoint = False
            continue
        for ev in enabled(stacks, env_idx, hist, max_env_flips):
            transitions += 1
            h2 = hist + [ev]
            cfg2, st2, e2, problems = build(h2)
            if problems:
                for kind, detail in problems[:1]:
                    sig = (kind, ev[1], ev[2] if ev[1] != "open" else ev[2])
                    if sig in bad_seen:
                        continue
                    bad_seen.add(sig)
                    rep.violation(
                        "oplevel-" + kind,
                        {"part": "a", "history": [list(x) for x in h2], "opens": OPENS, "envs": ENVS},
                        detail,
                    )
                continue  # do not explore beyond a violating state
            k = canon(cfg2, st2, e2)
            if k not in seen:
                seen[k] = h2
                frontier.append(h2)
                depth_reached = max(depth_reached, len(h2))
                if sum(1 for s in st2.values() if s) >= 2 or any(x[1] == "open" and x[2] >= FIRST_INVALID for x in h2):
                    nontrivial += 1
                if len(h2) == 4 and len(sample_hist) < 3:
                    sample_hist.append([list(x) for x in h2])
    set_env({})
    restore_seam()
    return {
        "states": len(seen),
        "transitions": transitions,
        "max_depth_reached": depth_reached,
        "fixpoint": fixpoint,
        "nontrivial_states": nontrivial,
        "samples": sample_hist,
        "wall_s": round(time.time() - t0, 2),
    }


# ================================================================================================
# (b) schedule level
# ================================================================================================
# a block is ("with", open_idx, body) | ("read",) | ("assign",); body in "", "read", "raise", "nested"
SKEYS = ["DEFAULT_SCHEMA", "TSQL_NO_SEMICOLON"]  # keys read inside the scheduled programs


def blocks():
    bs = []
    for i in (0, 1):
        for body in ("read", "raise", "nested"):
            bs.append(("with", i, body))
    bs.append(("with", 7, "read"))
    bs.append(("read",))
    bs.append(("assign",))
    return bs


def programs(max_blocks: int):
    bs = blocks()
    out = [(b,) for b in bs]
    if max_blocks >= 2:
        out += list(itertools.product(bs, repeat=2))
    return out


def ref_program(cfg_cls, prog, env):
    """reference observation of one thread running prog alone == in any company (thread-locality)"""
    obs = []

    def read(stack):
        return [ref_visible(cfg_cls, stack, env, k) for k in SKEYS]

    for b in prog:
        if b[0] == "read":
            obs.append(read([]))
        elif b[0] == "assign":
            obs.append("assign-refused")
            obs.append(read([]))
        else:
            kw = OPENS[b[1]]
            if not all(k in TYPES for k in kw):
                obs.append("open-refused")
                obs.append(read([]))
                continue
            st = [{k: ref_coerce(v, TYPES[k]) for k, v in kw.items()}]
            obs.append(read(st))
            if b[2] == "raise":
                obs.append("raised-through")
            elif b[2] == "nested":
                obs.append("nested-refused")
                obs.append(read(st))
            obs.append(read([]))
    return obs


def make_prog(cfg_box, prog, idents):
    from sqllineage.exceptions import ConfigException

    def read(cfg):
        return [getattr(cfg, k) for k in SKEYS]

    def run():
        cfg = cfg_box[0]
        idents.append(threading.get_ident())
        obs = []
        for b in prog:
            if b[0] == "read":
                obs.append(read(cfg))
            elif b[0] == "assign":
                try:
                    cfg.DEFAULT_SCHEMA = "zzz"
                    obs.append("assign-accepted")
                except ConfigException:
                    obs.append("assign-refused")
                obs.append(read(cfg))
            else:
                try:
                    with cfg(**OPENS[b[1]]):
                        obs.append(read(cfg))
                        if b[2] == "raise":
                            raise KeyError("boom")
                        if b[2] == "nested":
                            try:
                                with cfg(DEFAULT_SCHEMA="inner", TSQL_NO_SEMICOLON=True):
                                    obs.append("nested-accepted")
                            except ConfigException:
                                obs.append("nested-refused")
                            obs.append(read(cfg))
                except ConfigException:
                    obs.append("open-refused")
                except KeyError:
                    obs.append("raised-through")
                obs.append(read(cfg))
        return obs

    return run


_CODES = {}


def _config_codes():
    if "c" not in _CODES:
        import sqllineage.config as CF

        codes = sched.codes_of_module(CF)
        pure = {"parse_value", "get_ident"}  # no shared state: function entry is enough as a scheduling point
        _CODES["c"] = ([c for c in codes if c.co_name not in pure], [c for c in codes if c.co_name in pure])
    return _CODES["c"]


def explore_pair(task):
    """all schedules of two programs up to the preemption bound; returns counts and violations"""
    pa, pb, bound, env_idx, max_exec = task
    from sqllineage.config import _SQLLineageConfigLoader

    codes = _config_codes()
    env = ENVS[env_idx]
    set_env(env)
    cfg_box = [None]
    idents: list[int] = []
    expect = [ref_program(_SQLLineageConfigLoader, p, env) for p in (pa, pb)]
    outcomes = {}
    viol = []
    real_ident = _SQLLineageConfigLoader.__dict__["get_ident"]

    def run_prefix(prefix):
        cfg_box[0] = _SQLLineageConfigLoader()
        idents.clear()
        progs = [make_prog(cfg_box, pa, idents), make_prog(cfg_box, pb, idents)]
        return sched.Scheduler(progs, prefix, line_codes=codes[0], start_codes=codes[1], horizon_s=10).run()

    def on_exec(x):
        key = json.dumps(x.obs, default=str)
        outcomes[key] = outcomes.get(key, 0) + 1
        bad = None
        if x.deadlock:
            bad = ("deadlock", None)
        else:
            for i in (0, 1):
                if x.obs[i] != expect[i]:
                    bad = ("thread-observation", {"thread": i, "got": x.obs[i], "expected": expect[i]})
                    break
        if bad is None:
            # a later thread that re-uses either identifier must read environment / default values
            cfg = cfg_box[0]
            try:
                for ident in list(idents):
                    type(cfg).get_ident = staticmethod(lambda i=ident: i)
                    got = [getattr(cfg, k) for k in KEYS]
                    exp = [ref_visible(type(cfg), [], env, k) for k in KEYS]
                    if got != exp:
                        bad = ("identifier-reuse-sees-leftover", {"got": got, "expected": exp})
                    try:
                        with cfg(DEFAULT_SCHEMA="fresh"):
                            pass
                    except Exception as e:  # noqa
                        bad = ("identifier-reuse-cannot-open-scope", type(e).__name__)
            finally:
                type(cfg).get_ident = real_ident
        if bad and len(viol) < 3:
            viol.append({"kind": bad[0], "detail": bad[1], "schedule": list(x.choices), "programs": [pa, pb], "env": env_idx, "bound": bound})

    # the all-default schedule must already agree with the reference (vacuity / harness guard)
    n, complete = sched.explore(run_prefix, bound, on_exec, max_exec=max_exec)
    set_env({})
    return {"executions": n, "complete": complete, "outcomes": len(outcomes), "violations": viol}


def sched_level(rep: Report, tier: str):
    t0 = time.time()
    single = programs(1)
    double = programs(2)
    tasks = []
    pairs11 = list(itertools.combinations_with_replacement(single, 2))
    pairs21 = [(a, b) for a in double[len(single):] for b in single]
    pairs22 = list(itertools.combinations_with_replacement(double[len(single):], 2))
    if tier == "quick":
        plan = [("1-block x 1-block", pairs11, 2), ("2-block x 1-block", pairs21, 1)]
    else:
        plan = [("1-block x 1-block", pairs11, 3), ("2-block x 1-block", pairs21, 2), ("2-block x 2-block", pairs22, 1)]
    bounds = {name: b for name, _, b in plan}
    for name, pairs, b in plan:
        tasks += [(pa, pb, b, 1, None) for pa, pb in pairs]
    res = pmap(explore_pair, tasks, chunk=1)
    execs = sum(r["executions"] for r in res)
    multi = sum(1 for r in res if r["outcomes"] > 1)
    for r in res:
        for v in r["violations"]:
            rep.violation("sched-" + v["kind"], {"part": "b", **{k: v[k] for k in ("programs", "schedule", "env", "bound")}, "opens": OPENS}, v["detail"])
    return {
        "program_pairs": len(tasks),
        "schedules_executed": execs,
        "preemption_bounds_completed": bounds,
        "all_complete": all(r["complete"] for r in res),
        "pairs_with_more_than_one_outcome": multi,
        "wall_s": round(time.time() - t0, 2),
    }



# ================================================================================================
# (c) consumers of the configuration: the runner is lazy, so "visible only until its scope ends" must hold for the pair
#     (where the runner object was constructed, where its analysis actually happens)
# ================================================================================================
CONSUMERS = [
    # key, override value, another value, dialect, script, provider metadata
    ("DEFAULT_SCHEMA", "ods", "dw", "ansi", "INSERT INTO t SELECT a FROM s JOIN x.u ON 1 = 1", None),
    ("TSQL_NO_SEMICOLON", True, False, "tsql", "INSERT INTO t1 SELECT a FROM s1\nINSERT INTO t2 SELECT b FROM s2", None),
    ("LATERAL_COLUMN_ALIAS_REFERENCE", True, False, "ansi", "INSERT INTO m.t SELECT a AS b, b + 1 AS c FROM m.s", {"m.s": ["a"]}),
]


def _consumer_obs(r):
    import warnings

    with warnings.catch_warnings():
        warnings.simplefilter("ignore")
        try:
            return {
                "n": len(r.statements()),
                "src": sorted(str(t) for t in r.source_tables),
                "tgt": sorted(str(t) for t in r.target_tables),
                "cols": sorted([str(p[0]), str(p[-1])] for p in r.get_column_lineage()),
            }
        except Exception as e:  # noqa
            return {"exception": type(e).__name__}


def _consumer_case(case):
    """construct the runner in context A, run its analysis in context B; expected: construct and analyse in B"""
    ci, ctx_a, ctx_b, mode = case
    key, v1, v2, dialect, sql, md = CONSUMERS[ci]
    import warnings

    from sqllineage.config import SQLLineageConfig
    from sqllineage.core.metadata.dummy import DummyMetaDataProvider
    from sqllineage.runner import LineageRunner

    vals = {"none": None, "v1": v1, "v2": v2}

    class Boom(Exception):
        pass

    def mk():
        with warnings.catch_warnings():
            warnings.simplefilter("ignore")
            return LineageRunner(sql, dialect=dialect, **({"metadata_provider": DummyMetaDataProvider({k: list(v) for k, v in md.items()})} if md else {}))

    def in_ctx(ctx, fn):
        if vals[ctx] is None:
            return fn()
        with SQLLineageConfig(**{key: vals[ctx]}):
            return fn()

    expected = in_ctx(ctx_b, lambda: _consumer_obs(mk()))
    if mode == "same":  # A's scope has ended normally before B begins
        r = in_ctx(ctx_a, mk)
        got = in_ctx(ctx_b, lambda: _consumer_obs(r))
    elif mode == "exc":  # A's scope is left by an exception
        box = []

        def body():
            box.append(mk())
            raise Boom()

        try:
            in_ctx(ctx_a, body)
        except Boom:
            pass
        got = in_ctx(ctx_b, lambda: _consumer_obs(box[0]))
    elif mode == "nested":  # analysed in B opened while ... A already closed, constructed before any scope but touched (str) inside A
        r = mk()
        in_ctx(ctx_a, lambda: repr(r._dialect))
        got = in_ctx(ctx_b, lambda: _consumer_obs(r))
    else:  # "thread": another thread constructs inside A and keeps A open while this thread analyses inside B
        box, made, done = [], threading.Event(), threading.Event()

        def other():
            def body():
                box.append(mk())
                made.set()
                done.wait(30)

            in_ctx(ctx_a, body)

        t = threading.Thread(target=other)
        t.start()
        made.wait(30)
        try:
            got = in_ctx(ctx_b, lambda: _consumer_obs(box[0]))
        finally:
            done.set()
            t.join(30)
    return {"case": list(case), "expected": expected, "got": got, "ok": expected == got}


def consumer_level(rep: Report):
    t0 = time.time()
    cases = [(ci, a, b, mode) for ci in range(len(CONSUMERS)) for a in ("none", "v1", "v2") for b in ("none", "v1", "v2") for mode in ("same", "exc", "nested", "thread")]
    res = pmap(_consumer_case, cases, chunk=4)
    outcomes = {}
    for r in res:
        outcomes.setdefault(r["case"][0], set()).add(json.dumps(r["expected"], sort_keys=True))
        if not r["ok"]:
            ci, a, b, mode = r["case"]
            rep.violation("consumer-sees-configuration-of-another-scope",
                          {"part": "c", "key": CONSUMERS[ci][0], "constructed_in": a, "analysed_in": b, "mode": mode, "sql": CONSUMERS[ci][4], "dialect": CONSUMERS[ci][3]},
                          {"expected": r["expected"], "got": r["got"]})
    for ci, o in outcomes.items():
        if len(o) < 2:
            raise HarnessError(f"vacuous consumer case: {CONSUMERS[ci][0]} does not change the observation of its script")
    return {"cases": len(cases), "keys": [c[0] for c in CONSUMERS], "distinct_expected_outcomes_per_key": {CONSUMERS[ci][0]: len(o) for ci, o in outcomes.items()},
            "wall_s": round(time.time() - t0, 2)}

# ================================================================================================
def run(tier: str, opts: dict) -> int:
    rep = Report("C15", tier, "model_checking")
    a = op_level(rep, max_depth=int(opts.get("depth", 10 if tier == "quick" else 14)), max_env_flips=1 if tier == "quick" else 2)
    b = sched_level(rep, tier) if opts.get("part", "ab") != "a" else {}
    c = consumer_level(rep)
    rep.coverage.update(
        states=a["states"],
        transitions=a["transitions"],
        traces_validated_against_impl=a["transitions"] + b.get("schedules_executed", 0),
        evaluations=a["transitions"] + b.get("schedules_executed", 0),
        distinct_nontrivial=a["nontrivial_states"],
        samples=a["samples"] + [{"program_pair_example": [programs(2)[13], programs(2)[40]]}],
        rule="(a) BFS over (virtual thread in 1..3, op) with ops = open scope with each of "
        f"{len(OPENS)} keyword sets (valid, falsy, coercing, unknown, mixed), close, close by exception, direct "
        "assignment, environment flip; every transition calls the real config object through the get_ident seam; "
        "all keys read from all threads in every state; non-trivial state = >=2 threads inside a scope or a rejected open in its history. "
        "(b) every pair of thread programs of <=2 blocks over 9 blocks, every schedule up to the preemption bound, LINE "
        "events on every function of sqllineage/config.py as scheduling points. (c) consumers: for each key the runner reads (DEFAULT_SCHEMA, "
        "TSQL_NO_SEMICOLON, LATERAL_COLUMN_ALIAS_REFERENCE) every pair (context in which the lazy runner object is constructed, context in which it is "
        "analysed) over {no scope, scope K=v, scope K=v'} x {scope ended normally, ended by exception, object only touched in the scope, scope still open in another thread}: "
        "the analysis must see exactly the configuration of the context it runs in.",
        exhaustive=bool(a["fixpoint"] and b.get("all_complete", True)),
        op_level=a,
        sched_level=b,
        consumer_level=c,
    )
    if not a["fixpoint"]:
        rep.cap(f"operation-level BFS stopped by depth cap at depth {a['max_depth_reached']} (no fixpoint)")
    rep.assumptions += [
        "the model *is* the real object: no separate model, the reference stack semantics is the oracle; "
        "traces_validated_against_impl counts transitions/schedules executed on the real object",
        "scheduling points are line boundaries of config.py; preemption inside a single bytecode line is not modelled (GIL atomicity of dict/set operations assumed)",
        "thread identity reuse modelled through the get_ident seam",
    ]
    return rep.finish()


def replay(body: dict, opts: dict) -> int:
    c = body["case"]
    if c.get("part") == "a":
        hist = [tuple(x) for x in c["history"]]
        _, _, _, problems = build(hist)
        restore_seam()
        print("history:", hist)
        print("problems:", problems)
        if problems:
            print(f"VIOLATION property=C15 replay={opts.get('path', '<replayed>')}")
            return 1
        print("OK on replay")
        return 0
    if c.get("part") == "c":
        ci = [k[0] for k in CONSUMERS].index(c["key"])
        r = _consumer_case((ci, c["constructed_in"], c["analysed_in"], c["mode"]))
        print(json.dumps(r, indent=1))
        if not r["ok"]:
            print(f"VIOLATION property=C15 replay={opts.get('path', '<replayed>')}")
            return 1
        print("OK on replay")
        return 0
    pa = tuple(tuple(b) for b in c["programs"][0])
    pb = tuple(tuple(b) for b in c["programs"][1])
    from sqllineage.config import _SQLLineageConfigLoader

    env = ENVS[c["env"]]
    set_env(env)
    cfg_box = [None]
    idents: list[int] = []
    outs = []
    for _ in range(2):  # the same schedule twice: identical observations or the harness is at fault
        cfg_box[0] = _SQLLineageConfigLoader()
        progs = [make_prog(cfg_box, pa, idents), make_prog(cfg_box, pb, idents)]
        x = sched.Scheduler(progs, c["schedule"], line_codes=_config_codes()[0], start_codes=_config_codes()[1]).run()
        outs.append(x.obs)
    if outs[0] != outs[1]:
        raise HarnessError("schedule replay is not deterministic")
    expect = [ref_program(_SQLLineageConfigLoader, p, env) for p in (pa, pb)]
    print("observed:", outs[0])
    print("expected:", expect)
    if outs[0] != expect:
        print(f"VIOLATION property=C15 replay={opts.get('path', '<replayed>')}")
        return 1
    print("OK on replay (thread observations equal the reference)")
    return 0
