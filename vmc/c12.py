"""C12 - runs are isolated from one another.

(a) histories (E2): events run(script, provider in {the shared default instance, one shared non-empty provider, a fresh one}, analyzer
    in {ansi, tsql without semicolons, non-validating}, config scope in {none, DEFAULT_SCHEMA=x}); canonical state = generic fingerprint
    of process-global state reachable from the sqllineage modules (module globals, class attributes, function defaults, caches) plus
    the reused provider's vars(). Oracle in every state: fingerprint == initial, the provider answers as a fresh one, and every run's
    observation equals the observation of the same run in a fresh interpreter. Assumption-free part: every history of depth 2 whose
    second event is a probe run on the same provider.
(b) crash points (E5): a failing statement (unsupported / unparsable) at every position of an n-statement script, and a provider
    raising on its j-th lookup for every j; afterwards the provider is reused and must behave as a fresh one.
(c) schedules (E3): 2 threads, each one run with its own provider and config scope, scheduling points at function entries of
    runner / provider / config code and every line of the session handling; every schedule up to the preemption bound; each
    thread's observation equals its solo observation and both providers are clean afterwards.
"""
from __future__ import annotations

import json
import os
import subprocess
import sys
import time
import types

from vmc import common, observe, sched
from vmc.common import HarnessError, Report, pmap

MD = {"s.a": ["x", "k", "id"], "s.c": ["z", "id"], "s.z": ["p", "q"]}
SCRIPTS = {
    "create-m": "create table s.m as select x, k from s.a",
    "read-m-star": "insert into s.t select * from s.m",
    "read-m-unq": "insert into s.t select x, z from s.m join s.c on 1 = 1",
    "fail-unsupported-after-create": "create table s.m as select x, k from s.a; grant select on s.m to u",
    "fail-unparsable-after-create": "create table s.m as select x, k from s.a; select from where",
    "case-subquery": "insert into s.t select case when x > 0 then (select max(z) from s.c) else 0 end as c from s.a",
    "redefine-known": "create table s.a as select p, q from s.z; insert into s.t select * from s.a",
    "read-known-star": "insert into s.t select * from s.a",
    "create-and-read": "create table s.m as select x, k from s.a; insert into s.t select * from s.m",
    "read-before-create": "insert into s.t select * from s.m; create table s.m as select x, k from s.a; insert into s.u select * from s.m",
    "create-m-other-columns": "create table s.m as select p, q from s.z; insert into s.u select * from s.m",
}
PROBES = ["read-m-star", "read-m-unq", "read-known-star", "create-and-read", "read-before-create", "redefine-known"]
PROVIDERS = ["default", "shared", "fresh"]
ANALYZERS = ["ansi", "tsql-nosemi", "non-validating"]
SCOPES = ["none", "DEFAULT_SCHEMA=s"]


# ------------------------------------------------------------------------------------------------
# generic fingerprint of process-global state
# ------------------------------------------------------------------------------------------------
def _render(v, depth=0, seen=None):
    seen = seen if seen is not None else set()
    if isinstance(v, (str, int, float, bool, type(None))):
        return v
    if id(v) in seen or depth > 5:
        return "<rec>"
    seen = seen | {id(v)}
    if isinstance(v, dict):
        return {"__dict__": sorted((repr(k), _render(x, depth + 1, seen)) for k, x in v.items())}
    if isinstance(v, (list, tuple)):
        return [_render(x, depth + 1, seen) for x in v]
    if isinstance(v, (set, frozenset)):
        return {"__set__": sorted(json.dumps(_render(x, depth + 1, seen), sort_keys=True, default=str) for x in v)}
    if hasattr(v, "cache_info") and callable(getattr(v, "cache_info", None)):
        try:
            return {"__cache__": v.cache_info().currsize}
        except Exception:  # noqa
            return "<cache>"
    mod = getattr(type(v), "__module__", "")
    if mod.startswith("sqllineage"):
        try:
            return {"__obj__": type(v).__name__, "vars": _render(dict(vars(v)), depth + 1, seen)}
        except TypeError:
            return {"__obj__": type(v).__name__}
    return f"<{type(v).__name__}>"


def fingerprint():
    out = {}
    for name, m in sorted(sys.modules.items()):
        if not (name == "sqllineage" or name.startswith("sqllineage.")) or m is None:
            continue
        for k, v in vars(m).items():
            if k.startswith("__"):
                continue
            if isinstance(v, types.ModuleType):
                continue
            if isinstance(v, type):
                if v.__module__ != name:
                    continue
                for ck, cv in vars(v).items():
                    if ck.startswith("__") and ck not in ("__defaults__",):
                        continue
                    f = getattr(cv, "__func__", cv)
                    f = getattr(f, "fget", f) or f
                    if isinstance(f, types.FunctionType):
                        if f.__defaults__:
                            d = [_render(x) for x in f.__defaults__ if not isinstance(x, (str, int, float, bool, type(None)))]
                            if d:
                                out[f"{name}.{v.__name__}.{ck}.__defaults__"] = d
                        if hasattr(cv, "cache_info"):
                            out[f"{name}.{v.__name__}.{ck}.cache"] = _render(cv)
                        continue
                    if isinstance(cv, (list, dict, set)) or hasattr(cv, "cache_info") or getattr(type(cv), "__module__", "").startswith("sqllineage"):
                        out[f"{name}.{v.__name__}.{ck}"] = _render(cv)
                continue
            if isinstance(v, types.FunctionType):
                if getattr(v, "__module__", None) == name and v.__defaults__:
                    d = [_render(x) for x in v.__defaults__ if not isinstance(x, (str, int, float, bool, type(None)))]
                    if d:
                        out[f"{name}.{k}.__defaults__"] = d
                continue
            if hasattr(v, "cache_info"):
                out[f"{name}.{k}.cache"] = _render(v)
                continue
            if isinstance(v, (str, int, float, bool, tuple, type(None))):
                continue
            if getattr(v, "__module__", "").startswith(("typing", "collections.abc", "logging")) or type(v).__name__ in ("Logger",):
                continue
            out[f"{name}.{k}"] = _render(v)
    env = {k: v for k, v in os.environ.items() if k.startswith("SQLLINEAGE_") and k != common.GUARD}
    out["env"] = env
    return json.dumps(out, sort_keys=True, default=str)


# ------------------------------------------------------------------------------------------------
def new_provider():
    from sqllineage.core.metadata.dummy import DummyMetaDataProvider

    return DummyMetaDataProvider({k: list(v) for k, v in MD.items()})


def provider_answers(p):
    """what the provider says about every table any script mentions - must equal a fresh provider's answers"""
    from sqllineage.core.models import Table

    return {t: [str(c) for c in p.get_table_columns(Table(t))] for t in ("s.a", "s.c", "s.z", "s.m", "s.t", "s.u")}


def do_run(script, provider, analyzer, scope):
    """one analysis; -> canonical observation (or the exception class)"""
    from sqllineage.config import SQLLineageConfig

    dialect = {"ansi": "ansi", "tsql-nosemi": "tsql", "non-validating": "non-validating"}[analyzer]
    sql = SCRIPTS[script]
    if analyzer == "tsql-nosemi":
        sql = sql.replace("; ", "\n")
    kw = {}
    if scope != "none":
        kw["DEFAULT_SCHEMA"] = "s"
    if analyzer == "tsql-nosemi":
        kw["TSQL_NO_SEMICOLON"] = True

    def go():
        o = observe.observe(sql, dialect, provider=provider, level="columns")
        o.pop("warnings", None)
        return o

    if kw:
        with SQLLineageConfig(**kw):
            return go()
    return go()


FRESH_WORKER = r"""
import json, sys, warnings
warnings.simplefilter("ignore")
import logging; logging.disable(logging.CRITICAL)
from vmc import c12
letters = json.load(sys.stdin)
out = []
for (script, prov, analyzer, scope) in letters:
    # one letter per interpreter state would be ideal; the fingerprint check below proves that the order does not matter
    p = None if prov == "default" else c12.new_provider()
    out.append(c12.do_run(script, p, analyzer, scope))
print(json.dumps(out))
"""


def _fresh(letters):
    outs = []
    for chunk in [letters[i: i + 1] for i in range(len(letters))]:
        p = subprocess.run([sys.executable, "-c", FRESH_WORKER], input=json.dumps(chunk), capture_output=True, text=True, cwd=os.getcwd())
        if p.returncode != 0:
            raise HarnessError("fresh interpreter failed: " + p.stderr[-600:])
        outs += json.loads(p.stdout)
    return outs


def letters():
    return [(s, p, a, c) for s in SCRIPTS for p in PROVIDERS for a in ANALYZERS for c in SCOPES]


def _history(task):
    """run a history in this (forked, so far untouched) process; check oracles after every event"""
    hist, expected = task
    import sqllineage.runner  # noqa - make sure the census sees everything

    fp0 = fingerprint()
    shared = new_provider()
    fresh_answers = provider_answers(new_provider())
    bad = []
    for i, (script, prov, analyzer, scope) in enumerate(hist):
        p = None if prov == "default" else shared if prov == "shared" else new_provider()
        o = do_run(script, p, analyzer, scope)
        exp = expected[json.dumps([script, prov, analyzer, scope])]
        if o != exp:
            bad.append({"kind": "observation-differs-from-fresh-interpreter", "event": i, "observed": o, "fresh": exp})
        fp = fingerprint()
        if fp != fp0:
            a, b = json.loads(fp0), json.loads(fp)
            diff = {k: (a.get(k), b.get(k)) for k in set(a) | set(b) if a.get(k) != b.get(k)}
            bad.append({"kind": "process-state-not-restored", "event": i, "diff": json.dumps(diff, default=str)[:600]})
        if provider_answers(shared) != fresh_answers:
            bad.append({"kind": "reused-provider-does-not-answer-as-fresh", "event": i, "answers": provider_answers(shared)})
        if vars(shared).get("_session_metadata"):
            bad.append({"kind": "session-metadata-left-behind", "event": i})
        if bad:
            break
    return bad


# ------------------------------------------------------------------------------------------------
# (b) crash points
# ------------------------------------------------------------------------------------------------
BASE4 = ["create table s.m as select x, k from s.a", "create table s.m2 as select x from s.m", "insert into s.t select * from s.m2", "insert into s.u select x, z from s.m join s.c on 1 = 1"]
FAULTS = {"unsupported": "grant select on s.m to u", "unparsable": "select from where"}


def _crash(task):
    kind, n, k, j = task
    from sqllineage.core.metadata.dummy import DummyMetaDataProvider

    class Counting(DummyMetaDataProvider):
        calls = 0
        fail_at = None

        def _get_table_columns(self, schema, table, **kw):
            self.calls += 1
            if self.fail_at is not None and self.calls == self.fail_at:
                raise RuntimeError("metadata backend unavailable")
            return super()._get_table_columns(schema, table, **kw)

    p = Counting({k_: list(v) for k_, v in MD.items()})
    stmts = BASE4[:n]
    if kind in FAULTS:
        stmts = stmts[:k] + [FAULTS[kind]] + stmts[k:]
    else:
        p.fail_at = j
    script = "; ".join(stmts)
    first = observe.observe(script, "ansi", provider=p, level="tables")
    calls = p.calls
    p.fail_at = None
    bad = []
    if kind in FAULTS and "exception" not in first:
        bad.append({"kind": "faulty-script-did-not-fail"})
    fresh_answers = provider_answers(Counting({k_: list(v) for k_, v in MD.items()}))
    if provider_answers(p) != fresh_answers:
        bad.append({"kind": "reused-provider-does-not-answer-as-fresh", "answers": provider_answers(p)})
    for probe in PROBES:
        o = observe.observe(SCRIPTS[probe], "ansi", provider=p, level="columns")
        f = observe.observe(SCRIPTS[probe], "ansi", provider=Counting({k_: list(v) for k_, v in MD.items()}), level="columns")
        if o != f:
            bad.append({"kind": "probe-run-after-failure-differs-from-fresh", "probe": probe, "observed": o.get("pairs"), "fresh": f.get("pairs")})
    return {"bad": bad, "script": script, "calls": calls, "failed": "exception" in first}


# ------------------------------------------------------------------------------------------------
# (c) schedules
# ------------------------------------------------------------------------------------------------
THREAD_PROGRAMS = [
    ("create-and-read", "none"),
    ("create-m-other-columns", "DEFAULT_SCHEMA=s"),
    ("read-m-star", "none"),
    ("read-before-create", "none"),
]
_CODES = {}


def sched_codes():
    if "c" not in _CODES:
        import sqllineage.config as CF
        import sqllineage.core.metadata.dummy as MDu
        import sqllineage.core.metadata_provider as MP
        import sqllineage.runner as R

        entry = [c for m in (R, MP, MDu, CF) for c in sched.codes_of_module(m)]
        key = ("_eval", "__enter__", "__exit__", "session", "register_session_metadata", "deregister_session_metadata", "get_table_columns", "_get_table_columns")
        lines = [c for c in entry if c.co_name in key + ("__call__",)]
        coarse_entry = [c for c in entry if c.co_name in key and "config.py" not in c.co_filename]
        coarse_lines = [c for c in entry if c.co_name == "_eval"]
        _CODES["c"] = {"fine": (lines, entry), "coarse": (coarse_lines, coarse_entry)}
    return _CODES["c"]


def _schedules(task):
    pa, pb, bound, start, max_exec, grain = task[:6]
    deadline = task[6] if len(task) > 6 else None
    lines, entry = sched_codes()[grain]
    provs = [None, None]

    def prog(i, spec):
        def run():
            return do_run(spec[0], provs[i], "ansi", spec[1])

        return run

    solo = []
    for i, spec in enumerate((pa, pb)):
        provs[i] = new_provider()
        solo.append(prog(i, spec)())
    fresh_answers = provider_answers(new_provider())
    viol = []
    outcomes = {}

    def run_prefix(prefix):
        provs[0], provs[1] = new_provider(), new_provider()
        return sched.Scheduler([prog(0, pa), prog(1, pb)], prefix, line_codes=lines, start_codes=entry, horizon_s=60).run()

    def on_exec(x):
        key = common.digest(x.obs)
        outcomes[key] = outcomes.get(key, 0) + 1
        bad = None
        if x.deadlock:
            bad = ("deadlock", None)
        else:
            for i in (0, 1):
                if x.obs[i] != solo[i]:
                    bad = ("thread-observation-differs-from-solo", {"thread": i, "observed": x.obs[i], "solo": solo[i]})
                    break
        if bad is None:
            for i in (0, 1):
                if provider_answers(provs[i]) != fresh_answers:
                    bad = ("provider-not-clean-after-concurrent-runs", {"thread": i, "answers": provider_answers(provs[i])})
        if bad and len(viol) < 2:
            viol.append({"kind": bad[0], "detail": bad[1], "schedule": list(x.choices), "programs": [pa, pb]})

    if start is None:
        x0 = run_prefix([])
        on_exec(x0)
        return {"executions": 1, "points": len(x0.points), "shards": sched.shards(x0, bound), "violations": viol, "outcomes": len(outcomes), "complete": True}
    n, complete = sched.explore(run_prefix, bound, on_exec, max_exec=max_exec, deadline=deadline, start=start)
    return {"executions": n, "violations": viol, "outcomes": len(outcomes), "complete": complete}


# ------------------------------------------------------------------------------------------------
def run(tier: str, opts: dict) -> int:
    rep = Report("C12", tier, "model_checking")
    t0 = time.time()
    parts = opts.get("part", "abc")
    L = letters()
    states = transitions = validated = 0
    nontrivial = 0
    cov = {}
    if "a" in parts:
        fresh = pmap(_fresh, [L[i::32] for i in range(32)], chunk=1)
        expected = {}
        for i in range(32):
            for letter, o in zip(L[i::32], fresh[i]):
                expected[json.dumps(list(letter))] = o
        # E2 with the fingerprint as canonical state: every letter from the initial state (fixpoint if nothing leaks)
        hists = [[l] for l in L]
        # assumption-free part: depth 2, second event a probe on the same provider kind
        for l in L:
            if tier == "quick" and (l[2] != "ansi" and l[3] != "none"):
                continue
            for pr in PROBES:
                hists.append([l, (pr, l[1], "ansi", "none")])
        if tier != "quick":
            for l1 in L:
                for l2 in L:
                    if l1[1] == l2[1] == "shared" and l1[2] == l2[2] == "ansi":
                        for pr in PROBES[:2]:
                            hists.append([l1, l2, (pr, "shared", "ansi", "none")])
        res = pmap(_history, [(h, expected) for h in hists], chunk=4)
        seen_kinds = set()
        leaks = 0
        nontrivial += len({json.dumps(h) for h in hists if len(h) >= 2})
        for h, bad in zip(hists, res):
            transitions += len(h)
            for b in bad[:1]:
                leaks += 1
                sig = (b["kind"], h[0][0], h[0][1])
                if sig in seen_kinds:
                    continue
                seen_kinds.add(sig)
                rep.violation(b["kind"], {"part": "a", "history": [list(x) for x in h], "scripts": {x[0]: SCRIPTS[x[0]] for x in h}}, {k: v for k, v in b.items() if k != "kind"})
        states = 1 + leaks
        validated += len(L)
        cov["histories"] = {"letters": len(L), "histories": len(hists), "fixpoint": leaks == 0, "fresh_interpreter_observations": len(L)}
    if "b" in parts:
        tasks = []
        for n in (1, 2, 3, 4):
            for kind in FAULTS:
                for k in range(n + 1):
                    tasks.append((kind, n, k, None))
            # fault-free run gives L; then every j
            probe = _crash(("none", n, 0, None))
            for j in range(1, probe["calls"] + 1):
                tasks.append(("provider", n, 0, j))
        res = pmap(_crash, tasks, chunk=2)
        failed = 0
        for t, r in zip(tasks, res):
            failed += r["failed"]
            transitions += 1
            for b in r["bad"][:1]:
                rep.violation(b["kind"], {"part": "b", "fault": t[0], "statements": t[1], "position": t[2], "failing_lookup": t[3], "script": r["script"]}, {k: v for k, v in b.items() if k != "kind"})
        nontrivial += failed
        cov["crash_points"] = {"cases": len(tasks), "runs_that_failed": failed}
    if "c" in parts:
        pairs = [(a, b) for i, a in enumerate(THREAD_PROGRAMS) for b in THREAD_PROGRAMS[i:]]
        if tier == "quick":
            pairs = [(THREAD_PROGRAMS[0], THREAD_PROGRAMS[1]), (THREAD_PROGRAMS[0], THREAD_PROGRAMS[2]), (THREAD_PROGRAMS[1], THREAD_PROGRAMS[3])]
        # fine grain (every function entry of runner / provider / config code, every line of the session handling) with a small bound,
        # coarse grain (session functions and the lines of _eval only) with a larger one
        plan = [("fine", 1), ("coarse", 2)] if tier == "quick" else [("fine", 2), ("coarse", 3)]
        execs = 0
        sched_cov = []
        budget = float(opts.get("sched_budget_s", 0)) or (None if tier == "quick" else 600.0)  # thorough: wall-clock budget per (grain, bound)
        for grain, bound in plan:
            deadline = time.time() + budget if budget else None
            firsts = pmap(_schedules, [(a, b, bound, None, None, grain) for a, b in pairs], chunk=1)
            shard_tasks = []
            for (a, b), f in zip(pairs, firsts):
                for v in f["violations"]:
                    rep.violation("sched-" + v["kind"], {"part": "c", "programs": v["programs"], "schedule": v["schedule"], "bound": bound, "grain": grain}, v["detail"])
                for sh in f["shards"]:
                    shard_tasks.append((a, b, bound, sh, None, grain, deadline))
            res = pmap(_schedules, shard_tasks, chunk=1)
            n = len(firsts) + sum(r["executions"] for r in res)
            execs += n
            for t, r in zip(shard_tasks, res):
                for v in r["violations"][:1]:
                    rep.violation("sched-" + v["kind"], {"part": "c", "programs": v["programs"], "schedule": v["schedule"], "bound": bound, "grain": grain}, v["detail"])
            if not all(r["complete"] for r in res):
                rep.cap(f"part (c) {grain} grain, preemption bound {bound}: wall-clock budget of {budget:.0f} s reached after {n} schedules; the bound below it "
                        f"({bound - 1}) is complete in the quick tier")
            sched_cov.append({"grain": grain, "preemption_bound_completed": bound if all(r["complete"] for r in res) else bound - 1, "preemption_bound_attempted": bound, "scheduling_points_default_run": [f["points"] for f in firsts], "schedules_executed": n,
                              "complete": all(r["complete"] for r in res)})
        transitions += execs
        validated += execs
        nontrivial += execs - len(plan) * len(pairs)  # schedules with at least one preemption
        cov["schedules"] = {"program_pairs": len(pairs), "plan": sched_cov, "schedules_executed": execs, "complete": all(c["complete"] for c in sched_cov)}
    rep.coverage.update(
        states=max(states, 1),
        transitions=max(transitions, 1),
        traces_validated_against_impl=validated,
        evaluations=transitions,
        distinct_nontrivial=nontrivial,
        samples=[{"letter": list(L[7]), "script": SCRIPTS[L[7][0]]}, {"thread_programs": THREAD_PROGRAMS[:2]}],
        rule="non-trivial = distinct histories of >= 2 events + fault cases whose run really failed + schedules with >= 1 preemption; (a) letters = script (11) x provider kind (3) x analyzer (3) x config scope (2); state = fingerprint of process-global state + the reused provider; every letter from the initial "
        "state (a fixpoint with one state when nothing leaks) and every depth-2 history ending in a probe run on the same provider; each run compared with a fresh interpreter; "
        "(b) failing statement at every position / provider failing on every lookup, then probe runs on the same provider; (c) pairs of thread programs, every schedule up to the "
        "preemption bound, function-entry and session-line scheduling points",
        exhaustive=cov.get("schedules", {}).get("complete", True),
        **cov,
    )
    rep.assumptions += [
        "completeness of the generic fingerprint (module globals, class attributes, function defaults, caches of sqllineage modules, the provider's vars) for the inductive reading of part (a); "
        "the depth-2 probe histories and parts (b), (c) do not rely on it",
        "real preemption inside sqlfluff / sqlparse / networkx code is not modelled: scheduling points are sqllineage's own function entries and session lines",
    ]
    return rep.finish()


def replay(body: dict, opts: dict) -> int:
    c = body["case"]
    if c["part"] == "a":
        hist = [tuple(x) for x in c["history"]]
        exp = {}
        for l in hist:
            exp[json.dumps(list(l))] = _fresh([list(l)])[0]
        bad = _history((hist, exp))
    elif c["part"] == "b":
        bad = _crash((c["fault"], c["statements"], c["position"], c["failing_lookup"]))["bad"]
    else:
        pa, pb = [tuple(p) for p in c["programs"]]
        r1 = _schedules((pa, pb, c["bound"], c["schedule"], 1, c.get("grain", "fine")))
        r2 = _schedules((pa, pb, c["bound"], c["schedule"], 1, c.get("grain", "fine")))
        if json.dumps(r1["violations"], default=str) != json.dumps(r2["violations"], default=str):
            raise HarnessError("schedule replay is not deterministic")
        bad = r1["violations"]
    print(json.dumps(bad, indent=1, default=str)[:3000])
    if bad:
        print(f"VIOLATION property=C12 replay={opts.get('path', '<replayed>')}")
        return 1
    print("OK on replay")
    return 0
