"""C05 - a script is analysed as exactly the sequence of its statements.

E1 over scripts: n statements drawn from a pool (plain INSERT, ';' inside a string literal, ';' inside a quoted
identifier, doubled-quote escape, bare SELECT, DROP, UPDATE, a union, a reader of an earlier target, RENAME, SELECT
INTO where the dialect has it) x separator per gap x leading x trailing noise, every choice sequence within the
deviation bound. tsql additionally in no-semicolon mode (newline / comment separators), the mode set by environment
and by scoped override.
Oracle: (1) statements() are exactly the n statements, comment-free, in order; (2) tables of the script equal the
reference fold (C03) over the reads / writes each statement reports when analysed alone, and the script's column
pairs equal the composition of the per-statement column paths.
"""
from __future__ import annotations

import json
import os
import re

from vmc import c03, common, explorer, observe
from vmc.common import HarnessError, Report, pmap

Q = {"ansi": '"', "mysql": "`", "tsql": '"', "postgres": '"', "sparksql": "`"}


def pool(dialect):
    q = Q[dialect]
    p = [
        ("rw", "INSERT INTO t1 SELECT a FROM s1"),
        ("rw", "INSERT INTO t2 SELECT 'x;y' AS a FROM s2"),
        ("rw", f"INSERT INTO t3 SELECT a AS {q}c;d{q} FROM s3"),
        ("rw", "INSERT INTO t4 SELECT 'it''s; ok' AS a FROM s4"),
        ("rw", "SELECT a FROM s5"),
        ("drop", "DROP TABLE t9"),
        ("rw", "UPDATE t6 SET a = 1"),
        ("rw", "INSERT INTO t7 SELECT a FROM s7 UNION ALL SELECT b FROM s8"),
        ("rw", "INSERT INTO t8 SELECT a FROM t1"),
        ("ren", "RENAME TABLE t1 TO t1_bak" if dialect == "mysql" else "ALTER TABLE t1 RENAME TO t1_bak"),
        # readers of a table that an earlier pool statement writes: a bare query (its role must not depend on where it stands) and a
        # SELECT * (metadata-free: the star stays a star, whatever the script defined before)
        ("rw", "SELECT a FROM t1"),
        ("rw", "INSERT INTO t11 SELECT * FROM t1"),
    ]
    if dialect in ("tsql", "postgres"):
        p.append(("rw", "SELECT a INTO t5 FROM s1"))
    if dialect == "postgres":
        p.append(("rw", "INSERT INTO t10 SELECT $$a;b$$ AS a FROM s10"))
    return p


SEPS = [";", ";;", ";\n", "; -- c;c\n", "; /* c;c */ ", " /* c;c */;", "; /* c;c */ ;", ";\n-- c;c\n;\n"]
LEAD = ["", "\n  \n", "-- c;c\n", ";", "/* c;c */"]
TRAIL = ["", ";", ";\n-- trailing;comment", ";;", ";\n/* c;c */\n"]
TSQL_SEPS = ["\n", "\n-- c;c\n", ";", ";\n", "\n/* c;c */\n"]


def gen_script(ch, dialect, max_n, nosemi=False):
    p = pool(dialect)
    n = 1 + ch.choose("n", max_n)
    idx = [ch.choose(f"stmt[{i}]", len(p)) for i in range(n)]
    seps = TSQL_SEPS if nosemi else SEPS
    gaps = [seps[ch.choose(f"sep[{i}]", len(seps))] for i in range(n - 1)]
    lead = "" if nosemi else LEAD[ch.choose("lead", len(LEAD))]
    trail = ["", "\n", ";"][ch.choose("trail", 3)] if nosemi else TRAIL[ch.choose("trail", len(TRAIL))]
    text = lead
    for i, k in enumerate(idx):
        text += p[k][1]
        if i < n - 1:
            text += gaps[i]
    text += trail
    return {"dialect": dialect, "stmts": idx, "text": text, "nosemi": nosemi}


def norm(s: str) -> str:
    s = re.sub(r"\s+", " ", s).strip()
    while s.endswith(";"):
        s = s[:-1].strip()
    return s


_SINGLE = {}


def single(dialect, sql):
    """what one statement reports when analysed alone"""
    key = (dialect, sql)
    if key not in _SINGLE:
        o = observe.observe(sql, dialect, level="columns")
        _SINGLE[key] = o
    return _SINGLE[key]


def compose_paths(path_lists):
    """column pairs of a script = end-to-end pairs of the union of the statements' direct column edges"""
    edges = set()
    nodes = set()
    for paths in path_lists:
        for p in paths:
            nodes.update(p)
            edges.update(zip(p, p[1:]))
    succ, pred = {}, {}
    for a, b in edges:
        succ.setdefault(a, set()).add(b)
        pred.setdefault(b, set()).add(a)
    pairs = set()
    for src in [n for n in nodes if n not in pred and n in succ]:
        stack = [(src, {src})]
        while stack:
            n, seen = stack.pop()
            if n not in succ:
                pairs.add((src, n))
                continue
            for m in succ[n]:
                if m not in seen:
                    stack.append((m, seen | {m}))
    return pairs


def _eval(case):
    dialect, text, idx, nosemi, mech = case["dialect"], case["text"], case["stmts"], case["nosemi"], case.get("mech")
    p = pool(dialect)
    from sqllineage.config import SQLLineageConfig

    if nosemi and mech == "env":
        os.environ["SQLLINEAGE_TSQL_NO_SEMICOLON"] = "true"
    try:
        if nosemi and mech == "scoped":
            with SQLLineageConfig(TSQL_NO_SEMICOLON=True):
                o = _observe_script(text, dialect)
        else:
            o = _observe_script(text, dialect)
    finally:
        os.environ.pop("SQLLINEAGE_TSQL_NO_SEMICOLON", None)
    if "exception" in o:
        return {"bad": ["exception " + o["exception"]], "obs": o}
    bad = []
    want = [norm(p[k][1]) for k in idx]
    got = [norm(s) for s in o["stmts"]]
    if got != want:
        bad.append("statements-differ")
    # reference fold over per-statement facts
    hist = []
    path_lists = []
    for k in idx:
        kind, sql = p[k]
        so = single(dialect, sql)
        if "exception" in so:
            raise HarnessError(f"pool statement fails alone under {dialect}: {sql}: {so}")
        if kind == "drop":
            hist.append(("drop", "t9"))
        elif kind == "ren":
            hist.append(("ren", "t1", "t1_bak"))
        else:
            reads = tuple(sorted(c03.bare(t) for t in so["source"]))
            w = [c03.bare(t) for t in so["target"]]
            hist.append(("rw", reads, w[0] if w else None))
        path_lists.append(so["paths"])
    ref = c03.ref_of(hist)
    universe = sorted(ref.N | {c03.bare(t) for t in o["source"] + o["target"] + o["intermediate"]})
    tb = c03.compare(ref, ({c03.bare(t) for t in o["source"]}, {c03.bare(t) for t in o["target"]}, {c03.bare(t) for t in o["intermediate"]}, None), universe)
    if tb:
        bad.append("tables-differ-from-fold-of-single-statements: " + "; ".join(tb[:3]))
    if not any(p[k][0] == "ren" for k in idx):
        exp_pairs = compose_paths(path_lists)
        got_pairs = {tuple(x) for x in o["pairs"]}
        if exp_pairs != got_pairs:
            bad.append("column-pairs-differ-from-composition")
    if bad:
        return {"bad": bad, "obs": {k: o[k] for k in ("stmts", "source", "target", "intermediate", "pairs")}, "expected_statements": want}
    return {"ok": True}


def _observe_script(text, dialect):
    from sqllineage.runner import LineageRunner

    try:
        r = LineageRunner(text, dialect=dialect)
        stmts = list(r.statements())
    except Exception as e:  # noqa
        return observe.exc_record(e)
    o = observe.observe(text, dialect, level="columns")
    if "exception" not in o:
        o["stmts"] = stmts
    return o


def run(tier: str, opts: dict) -> int:
    rep = Report("C05", tier, "exploration")
    D = int(opts.get("D", 3 if tier == "quick" else 4))
    max_n = 3 if tier == "quick" else 5
    dialects = ["ansi", "mysql", "tsql"] + (["postgres", "sparksql"] if tier != "quick" else [])
    cases = []
    n_exec = 0
    for d in dialects:
        seen = set()
        Dd = D if (tier == "quick" or d == "ansi") else D - 1  # thorough: the outermost ball under ansi only
        for ch, c in explorer.explore(lambda ch, d=d: gen_script(ch, d, max_n), Dd):
            n_exec += 1
            if c["text"] not in seen:
                seen.add(c["text"])
                cases.append(c)
    # tsql without semicolons
    seen = set()
    for ch, c in explorer.explore(lambda ch: gen_script(ch, "tsql", max_n, nosemi=True), D if tier == "quick" else D - 1):
        n_exec += 1
        if c["text"] not in seen:
            seen.add(c["text"])
            for mech in ("env", "scoped"):
                cases.append(dict(c, mech=mech))
    res = pmap(_eval, cases, chunk=16)
    nontrivial = 0
    for c, r in zip(cases, res):
        if len(c["stmts"]) >= 2:
            nontrivial += 1
        if r.get("ok"):
            continue
        rep.violation(r["bad"][0].split(":")[0], {"dialect": c["dialect"], "script": c["text"], "statements": c["stmts"], "nosemi": c["nosemi"], "mech": c.get("mech")},
                      {"bad": r["bad"], "obs": r.get("obs"), "expected_statements": r.get("expected_statements")})
    for c in cases[:: max(1, len(cases) // 5)][:5]:
        rep.sample({"dialect": c["dialect"], "script": c["text"], "nosemi": c["nosemi"]})
    rep.coverage.update(
        evaluations=len(cases),
        distinct_nontrivial=nontrivial,
        generator_executions=n_exec,
        rule=f"scripts of 1..{max_n} statements from a pool of 12-14 x separator per gap ({len(SEPS)}) x leading ({len(LEAD)}) x trailing ({len(TRAIL)}), all choice "
        f"sequences with <= {D} deviations from the single plain INSERT; dialects {dialects}; tsql no-semicolon mode ({len(TSQL_SEPS)} separators) by environment and by "
        "scoped override; non-trivial = script of >= 2 statements",
        exhaustive=True,
        bound_completed={"deviations": D, "max_statements": max_n, "note": "thorough: D under ansi, D-1 under the other dialects and in tsql no-semicolon mode"},
    )
    rep.assumptions += [
        "statement text compared after whitespace collapse and removal of trailing semicolons",
        "per-statement facts come from analysing each pool statement alone through the public API; tables are folded with the C03 reference, columns composed over the statements' direct edges",
    ]
    return rep.finish()


def replay(body: dict, opts: dict) -> int:
    c = body["case"]
    r = _eval({"dialect": c["dialect"], "text": c["script"], "stmts": c["statements"], "nosemi": c["nosemi"], "mech": c.get("mech")})
    print(json.dumps(r, indent=1)[:3000])
    if r.get("ok"):
        print("OK on replay")
        return 0
    print(f"VIOLATION property=C05 replay={opts.get('path', '<replayed>')}")
    return 1
