"""shared driver of the invariant-monitor checks C06 and C18"""
from __future__ import annotations

import io
import json

from vmc import common, monitors, observe
from vmc.c01 import _write_pins
from vmc.common import Report, pmap

DESCR = {
    "C06": {
        "I1": "a reported column path has a single node (source-less target column)",
        "I2": "consecutive path nodes are not a direct lineage edge / flag views disagree",
        "I3": "a path starts at a column that has incoming lineage",
        "I4": "the last column of a path is not owned by a target or intermediate table",
        "I5": "a resolved source column's table is not read by the script, or the table graph does not connect it to the target",
        "I6": "a graph node is not retrievable by an equal object / equal nodes hash differently",
        "I7": "a resolved column does not have exactly one owner edge from its parent",
    },
    "C18": {
        "X1": "exported node (or edge) ids are not unique",
        "X2": "an edge endpoint or a parent reference is not an exported node id",
        "X3": "the table-level export differs from the table lineage graph / the summary's tables",
        "X4": "the column-level export differs from the column lineage graph / owners",
        "X5": "the text summary differs from the accessors, is unsorted or not repeatable",
        "W1": "the /lineage response of the web application differs from the runner's own export",
    },
}


def _eval(task):
    prop, item = task
    r = monitors.evaluate(item, (prop,))
    if "exception" in r:
        return r
    v = [(i, d) for p, i, d in r["violations"] if p == prop]
    if prop == "C18" and not item.get("md") and item.get("web"):
        v += web_check(item)
    return {"violations": v}


def web_check(item):
    import sqllineage.drawing as D
    from sqllineage.runner import LineageRunner
    from sqllineage.utils.constant import LineageLevel

    body = json.dumps({"e": item["sql"], "dialect": item["dialect"]}).encode()
    st = {}
    out = D.app({"REQUEST_METHOD": "POST", "PATH_INFO": "/lineage", "CONTENT_LENGTH": str(len(body)), "wsgi.input": io.BytesIO(body)}, lambda s, h: st.__setitem__("s", s))
    if not st.get("s", "").startswith("200"):
        return [("W1", f"/lineage answered {st.get('s')}")]
    data = json.loads(b"".join(out))
    r = LineageRunner(item["sql"], dialect=item["dialect"], verbose=True)
    bad = []
    an1, an2 = observe.Anon(), observe.Anon()
    if observe.canon_anon({"c": observe.cyto_canon(observe._anon_deep(data["column"], an1))}) != observe.canon_anon({"c": observe.cyto_canon(observe._anon_deep(r.to_cytoscape(LineageLevel.COLUMN), an2))}):
        bad.append(("W1", "column export of /lineage differs"))
    if observe.cyto_canon(data["dag"]) != observe.cyto_canon(r.to_cytoscape()):
        bad.append(("W1", "table export of /lineage differs"))
    if observe.Anon()(data["verbose"]) != observe.Anon()(str(r)):
        bad.append(("W1", "verbose summary of /lineage differs"))
    return bad


def key_of(item):
    return f"{item['dialect']}|{json.dumps(item.get('md'), sort_keys=True) if item.get('md') else '-'}|{item['sql']}"


def run(prop: str, tier: str, opts: dict) -> int:
    rep = Report(prop, tier, "exploration")
    items = monitors.results_space(tier)
    if prop == "C18":
        for i, it in enumerate(items):
            it["web"] = it["id"].startswith("corpus:") or i % 7 == 0
    res = pmap(_eval, [(prop, it) for it in items], chunk=16)
    regen = opts.get("regen_pins")
    new_pins = {}
    n_ok = n_exc = 0
    by_origin = {}
    by_inv = {}
    nontrivial = 0
    for it, r in zip(items, res):
        origin = it["id"].split(":")[0] + ":" + (it["id"].split(":")[1].split("/")[0].split(".")[0] if it["id"].startswith("corpus") else it["id"].split(":")[1])
        by_origin[origin] = by_origin.get(origin, 0) + 1
        if "exception" in r:
            n_exc += 1
            continue
        n_ok += 1
        if ";" in it["sql"].strip().rstrip(";") or "JOIN" in it["sql"].upper() or "(" in it["sql"]:
            nontrivial += 1
        if not r["violations"]:
            continue
        invs = sorted({i for i, _ in r["violations"]})
        for i in invs:
            by_inv[i] = by_inv.get(i, 0) + 1
        key = key_of(it)
        dg = common.digest(invs)
        if regen:
            new_pins[key] = [f"F-{prop}-{invs[0]}", dg]
            continue
        fid = rep.findings.pinned(key, dg)
        if fid:
            for i in invs:
                rep.known_finding(f"F-{prop}-{i}", DESCR[prop].get(i))
        else:
            rep.violation(invs[0], {"item": {k: it[k] for k in ("id", "sql", "dialect", "md")}}, {"invariants": invs, "details": [d for _, d in r["violations"]][:6]})
    if regen:
        print("violations by invariant on this tree:", by_inv)
        return _write_pins(prop, new_pins, [], replace=(tier == "thorough"))
    for it in items[:: max(1, len(items) // 5)][:5]:
        rep.sample({"id": it["id"], "sql": it["sql"][:300], "dialect": it["dialect"]})
    rep.coverage.update(
        evaluations=n_ok,
        distinct_nontrivial=nontrivial,
        rule="every result of the shared space: generator cases of C01 (table profile), C02 (5 centres), C03 histories as scripts, C04 scripts with "
        "their providers, C05 scripts, and the harvested corpus (test-suite SQL under its dialects, TPC-DS, docs); invariants "
        + ", ".join(sorted(DESCR[prop])) + " evaluated on each; non-trivial = multi-statement script or statement with a join / subquery",
        exhaustive=True,
        results_by_origin=by_origin,
        not_analysable_under_listed_dialect=n_exc,
        invariant_violations_seen=by_inv,
    )
    rep.assumptions += [
        "the combined graph is reached through the runner's holder object (no source hook)",
        "known findings matched exactly per (dialect, metadata, script, set of violated invariants) from pins/%s.json" % prop,
    ]
    return rep.finish()


def replay(prop, body, opts):
    it = body["case"]["item"]
    it["web"] = True
    r = _eval((prop, it))
    print(json.dumps(r, indent=1, default=str)[:3000])
    if "exception" in r or not r["violations"]:
        print("OK on replay")
        return 0
    invs = sorted({i for i, _ in r["violations"]})
    if common.Findings(prop).pinned(key_of(it), common.digest(invs)):
        print(f"KNOWN-FINDING: property={prop} F-{prop}-{invs[0]}")
        return 0
    print(f"VIOLATION property={prop} replay={opts.get('path', '<replayed>')}")
    return 1
