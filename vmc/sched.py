"""E3 - stateless preemption-bounded scheduler for real threads.

Real `threading.Thread`s, one semaphore each (baton): exactly one runs. Scheduling points are
`sys.monitoring` LINE / PY_START events (PEP 669) enabled only on chosen code objects, so third-party code
runs at full speed and no source hooks are needed. At a point the scheduler takes the replayed choice, else 0
(= keep running the current thread). Alternatives are ordered "running thread first, then ascending ids";
choosing another thread while the running one is still enabled costs one preemption; a switch at thread
end is free. Exploration is the deviation-bounded loop of the guidance with cost = preemptions.

A divergence while replaying a prefix (choice out of range) raises HarnessError - never a violation.
"""
from __future__ import annotations

import sys
import threading
import time
import types

from vmc.common import HarnessError

mon = sys.monitoring
TOOL = mon.DEBUGGER_ID


def codes_of_module(mod) -> list[types.CodeType]:
    """every code object defined in the module's file (functions, methods, properties, nested), found by
    file name - renaming a function does not blind the scheduler"""
    out: list[types.CodeType] = []
    seen = set()
    fname = getattr(mod, "__file__", None)

    def walk(co):
        if id(co) in seen:
            return
        seen.add(id(co))
        out.append(co)
        for c in co.co_consts:
            if isinstance(c, types.CodeType):
                walk(c)

    def visit(v, depth=0):
        f = getattr(v, "__func__", v)
        f = getattr(f, "fget", f)
        f = getattr(f, "__wrapped__", f)
        if isinstance(f, types.FunctionType):
            if f.__code__.co_filename == fname:
                walk(f.__code__)
            # closures (decorators such as lazy_method wrap a function defined in the same file)
            for cell in f.__closure__ or ():
                try:
                    cv = cell.cell_contents
                except ValueError:
                    continue
                if isinstance(cv, types.FunctionType) and cv.__code__.co_filename == fname:
                    walk(cv.__code__)
        elif isinstance(v, type) and depth < 2 and getattr(v, "__module__", None) == mod.__name__:
            for cv in vars(v).values():
                visit(cv, depth + 1)

    for v in list(vars(mod).values()):
        visit(v)
    return out


_ACTIVE: list = [None]
_INSTALLED: dict = {"line": (), "start": (), "cb": False}


def _cb_line(code, line):
    s = _ACTIVE[0]
    if s is not None:
        s._cb_line(code, line)


def _cb_start(code, off):
    s = _ACTIVE[0]
    if s is not None:
        s._cb_start(code, off)


def _install(line_codes, start_codes) -> None:
    """events stay enabled for the life of the process (re-instrumenting per execution is the dominant cost);
    the callbacks are inert unless a scheduler is active"""
    ev = mon.events
    if not _INSTALLED["cb"]:
        try:
            mon.use_tool_id(TOOL, "vmc-sched")
        except ValueError:
            pass
        mon.register_callback(TOOL, ev.LINE, _cb_line)
        mon.register_callback(TOOL, ev.PY_START, _cb_start)
        _INSTALLED["cb"] = True
    key_l, key_s = tuple(map(id, line_codes)), tuple(map(id, start_codes))
    if _INSTALLED["line"] == key_l and _INSTALLED["start"] == key_s:
        return
    for c in _INSTALLED.get("codes", ()):
        mon.set_local_events(TOOL, c, 0)
    lset = set(line_codes)
    sset = set(start_codes)
    for c in lset | sset:
        mon.set_local_events(TOOL, c, (ev.LINE if c in lset else 0) | (ev.PY_START if c in sset else 0))
    _INSTALLED.update(line=key_l, start=key_s, codes=list(lset | sset))


class Execution:
    __slots__ = ("points", "choices", "obs", "deadlock", "errors")

    def __init__(self):
        self.points = []  # (thread, n_alternatives, running_enabled, what)
        self.choices = []
        self.obs = None
        self.deadlock = False
        self.errors = []

    def preemptions_before(self, i: int) -> int:
        return sum(1 for j in range(i) if self.choices[j] != 0 and self.points[j][2])


class Scheduler:
    def __init__(self, progs, prefix, line_codes=(), start_codes=(), horizon_s: float = 20.0):
        self.progs = progs
        self.prefix = list(prefix)
        self.line_codes = list(line_codes)
        self.start_codes = list(start_codes)
        self.horizon_s = horizon_s
        n = len(progs)
        self.sems = [threading.Semaphore(0) for _ in range(n)]
        self.done = [False] * n
        self.cur = None
        self.x = Execution()
        self.x.obs = [None] * n
        self.main = threading.Semaphore(0)
        self.tid2idx: dict[int, int] = {}
        self.abort = False

    def _enabled(self):
        return [i for i, d in enumerate(self.done) if not d]

    def _choose(self, n_alt: int) -> int:
        k = len(self.x.choices)
        c = self.prefix[k] if k < len(self.prefix) else 0
        if c >= n_alt:
            self.x.errors.append(f"replay divergence at point {k}: choice {c} of {n_alt}")
            self.abort = True
            c = 0
        self.x.choices.append(c)
        return c

    def _point(self, me: int, what) -> None:
        en = self._enabled()
        order = [me] + [i for i in en if i != me]
        self.x.points.append((me, len(order), True, what))
        c = self._choose(len(order))
        nxt = order[c]
        if nxt != me:
            self.cur = nxt
            self.sems[nxt].release()
            self.sems[me].acquire()

    def _cb_line(self, code, line):
        idx = self.tid2idx.get(threading.get_ident())
        if idx is not None and self.cur == idx and not self.abort:
            self._point(idx, (code.co_name, line))

    def _cb_start(self, code, off):
        idx = self.tid2idx.get(threading.get_ident())
        if idx is not None and self.cur == idx and not self.abort:
            self._point(idx, (code.co_name, "start"))

    def run(self) -> Execution:
        def body(i):
            self.tid2idx[threading.get_ident()] = i
            self.sems[i].acquire()
            try:
                self.x.obs[i] = self.progs[i]()
            except BaseException as e:  # the program's own outcome
                self.x.obs[i] = ("EXC", type(e).__name__, str(e)[:200])
            self.done[i] = True
            en = self._enabled()
            if en:
                self.x.points.append((i, len(en), False, "end"))
                c = self._choose(len(en))
                self.cur = en[c]
                self.sems[en[c]].release()
            else:
                self.main.release()

        ths = [threading.Thread(target=body, args=(i,), daemon=True) for i in range(len(self.progs))]
        _install(self.line_codes, self.start_codes)
        _ACTIVE[0] = self
        try:
            for t in ths:
                t.start()
            t0 = time.time()
            while len(self.tid2idx) < len(ths):
                time.sleep(0)
                if time.time() - t0 > 5:
                    raise HarnessError("threads did not start")
            self.cur = 0
            self.sems[0].release()
            if not self.main.acquire(timeout=self.horizon_s):
                self.x.deadlock = True
                self.abort = True
                # let everybody run to the end so the process can go on
                for s in self.sems:
                    s.release()
                    s.release()
            for t in ths:
                t.join(timeout=5)
        finally:
            _ACTIVE[0] = None
        if self.x.errors:
            raise HarnessError(self.x.errors[0])
        return self.x


def explore(run_prefix, bound: int, on_exec, max_exec: int | None = None, deadline: float | None = None, start=None):
    """deviation(preemption)-bounded exploration.

    run_prefix(prefix) -> Execution ;  on_exec(execution) is called for every execution.
    Returns (executions, complete) - complete is False when max_exec / deadline stopped the search.
    """
    stack = [list(start or [])]
    n = 0
    while stack:
        if (max_exec is not None and n >= max_exec) or (deadline is not None and time.time() > deadline):
            return n, False
        prefix = stack.pop()
        x = run_prefix(prefix)
        n += 1
        on_exec(x)
        if x.choices[: len(prefix)] != prefix:
            raise HarnessError("replayed prefix diverged")
        pre = x.preemptions_before(len(prefix))
        for i in range(len(prefix), len(x.points)):
            _, n_alt, running_enabled, _ = x.points[i]
            cost = pre + (1 if running_enabled else 0)
            if cost <= bound:
                for alt in range(1, n_alt):
                    stack.append(x.choices[:i] + [alt])
            if x.choices[i] != 0 and running_enabled:
                pre += 1
    return n, True


def shards(x0: Execution, bound: int):
    """first-deviation prefixes of the default execution: the subtrees below them partition everything but the default run"""
    out = []
    pre = 0
    for i, (_, n_alt, running_enabled, _) in enumerate(x0.points):
        cost = pre + (1 if running_enabled else 0)
        if cost <= bound:
            for alt in range(1, n_alt):
                out.append(x0.choices[:i] + [alt])
        if x0.choices[i] != 0 and running_enabled:
            pre += 1
    return out


def selftest():
    """a lost-update race on a shared counter must be found with one preemption and not with zero"""
    shared = {"v": 0}

    def inc():
        t = shared["v"]
        t = t + 1
        shared["v"] = t
        return t

    codes = [inc.__code__]
    outcomes = {}

    def run_prefix(prefix):
        shared["v"] = 0
        return Scheduler([inc, inc], prefix, line_codes=codes).run()

    def on_exec(x):
        outcomes[shared["v"]] = outcomes.get(shared["v"], 0) + 1

    n0, _ = explore(run_prefix, 0, on_exec)
    assert set(outcomes) == {2}, outcomes
    n1, complete = explore(run_prefix, 1, on_exec)
    assert complete and 1 in outcomes, (n1, outcomes)
    # determinism of replay: same prefix twice, same points
    a = run_prefix([0, 1])
    b = run_prefix([0, 1])
    assert a.points == b.points and a.choices == b.choices
