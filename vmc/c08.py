"""C08 - lineage is invariant under renaming of statement-local names.

Every C02-generator case within the deviation bound that has local names (table aliases, derived-table aliases, CTE
names) x every injective map of those names into an adversarial pool (fresh names, the bare name of a
schema-qualified table the statement reads, the bare name of the target, a column name in use, a mixed-case name, a
soft keyword) - all P(pool, k) maps enumerated, maps that would make the statement ambiguous by the reference scope
rules excluded by construction - plus the alias toggles: AS keyword on/off, alias added to an unaliased table, alias
removed from an aliased table. Differential oracle: tables and end-to-end column pairs of the renamed statement equal
those of the original (local names inside unresolved-candidate lists compared through the renaming).
"""
from __future__ import annotations

import itertools
import json
import re

from vmc import common, observe, sqlgen
from vmc.c01 import enumerate_cases, enumerate_plan
from vmc.common import HarnessError, Report, pmap

FRESH = ["zq1", "zq2", "zq3"]
SOFT_KEYWORD = "data"


def scopes(st):
    """list of FROM scopes, each a list of rels"""
    out = []

    def q(qq):
        for s in qq["branches"]:
            out.append(s["from"]["rels"])

    sqlgen.walk_queries(st, q)
    if st.get("from"):
        out.append(st["from"]["rels"])
    if st["kind"] == "merge":
        out.append([st["using"]])
    return out


def exposed(r):
    if r["k"] == "base":
        return r["alias"] or r["t"]["n"]
    if r["k"] == "derived":
        return r["alias"]
    return r["alias"] or r["name"]


def pool_for(st):
    pool = list(FRESH)
    qualified = [t["n"] for t in sqlgen.base_tables(st) if t["s"]]
    if qualified:
        pool.append(qualified[0])  # bare name of a schema-qualified table read by the statement
    if st.get("target"):
        pool.append(st["target"]["n"])
    pool += ["c1", "MixedCase", SOFT_KEYWORD]
    return pool


def valid(st, mapping):
    """reference scope rules: after renaming, no two relations of one FROM scope expose the same name; a CTE name does
    not capture an unqualified base table; names stay distinct from CTE names"""
    ctes = set()
    sqlgen.walk_queries(st, lambda qq: ctes.update(c["name"] for c in qq["ctes"]))
    new_ctes = {mapping.get(c, c).lower() for c in ctes}
    if len(new_ctes) != len(ctes):
        return False
    unq_tables = {t["n"] for t in sqlgen.base_tables(st) if not t["s"]}
    if any(mapping.get(c, c).lower() in unq_tables for c in ctes if c in mapping):
        return False
    if st["kind"] == "merge":
        # the target is in scope next to the source
        if mapping.get(st["using"].get("alias"), "").lower() in (st["talias"], st["target"]["n"]):
            return False
    for rels in scopes(st):
        names = []
        for r in rels:
            e = exposed(r)
            if r["k"] == "cte" and not r["alias"]:
                e = mapping.get(r["name"], r["name"])
            else:
                e = mapping.get(e, e) if (r.get("alias") or r["k"] != "base") else e
            names.append(e.lower())
        if len(names) != len(set(names)):
            return False
        # an alias must not equal the bare name of an unaliased table of the same scope (shadowing)
    # a new alias must not equal a CTE name that is read in the same statement unless it is that CTE
    for new in mapping.values():
        if new.lower() in {c.lower() for c in ctes if c not in mapping}:
            return False
    return True


def renamings(st, tier):
    """(label, R-kwargs) for every variant"""
    out = []
    locs = sqlgen.local_names(st)
    pool = pool_for(st)
    if locs and len(locs) <= 3:
        for combo in itertools.permutations(pool, len(locs)):
            if sum(1 for c in combo if c not in FRESH) > (1 if tier == "quick" else 2):
                continue  # at most one (quick) / two (thorough) adversarial names per renaming: the deviation bound of this dimension
            if [c for c in combo if c in FRESH] != FRESH[: sum(1 for c in combo if c in FRESH)]:
                continue  # fresh names are interchangeable: use them in order
            m = dict(zip(locs, combo))
            if valid(st, m):
                out.append(("rename " + json.dumps(m, sort_keys=True), {"rename": m}))
    if locs:
        out.append(("AS toggled", {"as_toggle": True}))
    # add an alias to one unaliased base table / remove the alias of one aliased base table
    rels = []
    sqlgen.walk_rels(st, rels.append)
    for r in rels:
        if r["k"] != "base":
            continue
        if not r["alias"] and not r.get("quoted"):
            m = {"+" + r["t"]["n"]: "zq9"}
            out.append(("alias added " + r["t"]["n"], {"rename": m}))
        elif r["alias"]:
            others = [exposed(x) for rs in scopes(st) if r in rs for x in rs if x is not r]
            if r["t"]["n"] not in others:
                out.append(("alias removed " + r["alias"], {"rename": {r["alias"]: "-" + r["t"]["n"]}}))
    return out


_LOCAL = re.compile(r"[A-Za-z_][A-Za-z0-9_]*")


def canon(o, local_map):
    """tables and pairs; local names (old or new) inside candidate lists / subquery-column sources -> ~i"""
    if "exception" in o:
        return {"exception": o["exception"]}

    def fix(s):
        if s.startswith("?"):
            name, cands = s[1:].split("[")
            cs = [local_map.get(c.lower(), c) if "." not in c else c for c in cands.rstrip("]").split("|")]
            return "?" + name + "[" + "|".join(sorted(cs)) + "]"
        head = s.split(".")[0]
        if s.count(".") == 1 and head.lower() in local_map:
            return local_map[head.lower()] + "." + s.split(".", 1)[1]
        return s

    return {
        "source": o["source"], "target": o["target"], "intermediate": o["intermediate"],
        "pairs": sorted([fix(a), fix(b)] for a, b in o["pairs"]),
    }


def _eval(task):
    if len(task) > 2 and task[2]:
        from sqllineage.config import SQLLineageConfig

        with SQLLineageConfig(DEFAULT_SCHEMA=task[2]):  # the same comparison with a default schema configured
            return _eval(task[:2])
    st, variants = task[:2]
    base_sql = sqlgen.render(st)
    locs = sqlgen.local_names(st)
    ident = {n.lower(): f"~{i}" for i, n in enumerate(locs)}
    base = canon(observe.observe(base_sql, "ansi", level="columns"), ident)
    out = []
    for label, kw in variants:
        sql = sqlgen.render(st, sqlgen.R(**kw))
        m = kw.get("rename", {})
        lm = dict(ident)
        for i, n in enumerate(locs):
            new = m.get(n, n)
            if new.startswith("-"):
                new = new[1:]
            lm[new.lower()] = f"~{i}"
        for k, v in m.items():
            if k.startswith("+"):
                lm[v.lower()] = "~added"
        o = observe.observe(sql, "ansi", level="columns")
        if "exception" in o and o["exception"] == "InvalidSyntaxException" and not observe.sqlfluff_accepts(sql, "ansi"):
            out.append({"label": label, "sql": sql, "skip": True})
            continue
        c = canon(o, lm)
        # an added alias may legitimately show up as candidate name / subquery owner: compare with it mapped back
        if c == base:
            out.append({"label": label, "ok": True})
        else:
            out.append({"label": label, "sql": sql, "obs": c})
    return {"base_sql": base_sql, "base": base, "variants": out}


def alias_equals_other_table_name(st, m):
    """the minimal cause of the one known deviation: after renaming, an alias (or CTE reference name) equals the bare name
    of another - itself aliased - base table of the same FROM scope"""
    for rels in scopes(st):
        for r in rels:
            e = exposed(r)
            new = m.get(e, e) if (r.get("alias") or r["k"] != "base") else e
            if r["k"] == "cte" and not r["alias"]:
                new = m.get(r["name"], r["name"])
            for x in rels:
                if x is not r and x["k"] == "base" and x["alias"] and x["t"]["n"].lower() == new.lower():
                    return True
    return False


def comma_join_inside_in_subquery(st):
    hit = []

    def pred(p):
        if not p:
            return
        if p[0] == "in" and any(b["from"]["shape"] in ("comma", "join_comma", "comma_join") for b in p[1]["branches"]):
            hit.append(1)
        if p[0] == "and":
            pred(p[1])
            pred(p[2])

    def q(qq):
        for b in qq["branches"]:
            pred(b["where"])

    sqlgen.walk_queries(st, q)
    pred(st.get("where"))
    return bool(hit)


def alias_inside_parenthesised_join(st):
    hit = []

    def chk(frm):
        sh, rels = frm["shape"], frm["rels"]
        inner = rels[:2] if sh == "paren_join_join" else rels[1:] if sh == "join_paren_join" else []
        if any(r.get("alias") for r in inner):
            hit.append(1)

    def q(qq):
        for b in qq["branches"]:
            chk(b["from"])

    sqlgen.walk_queries(st, q)
    if st.get("from"):
        chk(st["from"])
    return bool(hit)


def sig_of(st, label, base, obs):
    """minimal-cause style signature of a known deviation: which kind of variant, which kind of new name, what differs"""
    if alias_inside_parenthesised_join(st) and not label.startswith("AS") and "exception" not in obs and obs.get("source") == base.get("source") and obs.get("target") == base.get("target"):
        return "alias-inside-parenthesised-join|pairs"
    if comma_join_inside_in_subquery(st) and label.startswith("alias"):
        differs = [k for k in ("source", "target", "intermediate", "pairs") if "exception" in obs or obs.get(k) != base.get(k)]
        return "comma-join-inside-in-subquery|" + label.split(" ")[1] + "|" + "+".join(differs)
    if label.startswith("rename ") and alias_equals_other_table_name(st, json.loads(label[len("rename "):])):
        differs = [k for k in ("source", "target", "intermediate", "pairs") if "exception" in obs or obs.get(k) != base.get(k)]
        return "alias-equals-bare-name-of-another-aliased-table-in-scope|" + "+".join(differs)
    kind = label.split(" ")[0] + (" " + label.split(" ")[1] if label.startswith("alias") else "")
    new_names = []
    if label.startswith("rename "):
        m = json.loads(label[len("rename "):])
        for v in m.values():
            new_names.append("fresh" if v in FRESH else "target-name" if st.get("target") and v == st["target"]["n"] else
                             "column-name" if v == "c1" else "mixed-case" if v == "MixedCase" else "soft-keyword" if v == SOFT_KEYWORD else "qualified-table-bare-name")
    differs = [k for k in ("source", "target", "intermediate", "pairs") if "exception" in obs or obs.get(k) != base.get(k)]
    return f"{kind}|{'+'.join(sorted(set(new_names)))}|{'+'.join(differs)}"


def run(tier: str, opts: dict) -> int:
    rep = Report("C08", tier, "exploration")
    D = int(opts.get("D", 1 if tier == "quick" else 2))
    C = sqlgen.CENTRES
    plan = [("simple", C["simple"], D), ("join", C["join"], D), ("derived", C["derived"], 1), ("cte", C["cte"], 1), ("star", C["star"], 1), ("setop", C["setop"], 1), ("tables", sqlgen.TABLE_PROFILE, 1)]
    if tier != "quick":
        plan = [("simple", C["simple"], 2), ("join", C["join"], 2), ("derived", C["derived"], 1), ("cte", C["cte"], 1), ("star", C["star"], 2), ("setop", C["setop"], 1), ("tables", sqlgen.TABLE_PROFILE_R3, 2), ("tables", sqlgen.TABLE_PROFILE, 1)]
    cases, n_exec = enumerate_plan(plan, 2)
    tasks = []
    seen = set()
    for sql, (st, trace, ndev, centre) in cases:
        if sql in seen or st["kind"] == "select_into" or "item:pgcast" in sqlgen.features(st):
            continue
        seen.add(sql)
        vs = renamings(st, tier)
        if vs:
            tasks.append((st, vs))
    tasks += [(st, vs, "ods") for st, vs in list(tasks)]
    res = pmap(_eval, tasks, chunk=2)
    regen = opts.get("regen_pins")
    n_var = n_skip = 0
    sigs = {}
    nontrivial = set()
    known = {e["id"]: set(e.get("signatures", [])) for e in rep.findings.entries.values()}
    for t, r in zip(tasks, res):
        st, vs = t[:2]
        for v in r["variants"]:
            n_var += 1
            if v.get("skip"):
                n_skip += 1
                continue
            if not v["label"].startswith("rename") or "fresh" not in sig_of(st, v["label"], {}, {"exception": 1}).split("|")[1].split("+")[:1]:
                nontrivial.add((r["base_sql"], v["label"]))
            if v.get("ok"):
                continue
            s = sig_of(st, v["label"], r["base"], v["obs"])
            if regen:
                sigs.setdefault(s, []).append((r["base_sql"], v["sql"]))
                continue
            fid = next((f for f, sg in known.items() if s in sg), None)
            if fid:
                rep.known_finding(fid)
            else:
                rep.violation("renaming-changes-lineage", {"sql": r["base_sql"], "renamed_sql": v["sql"], "variant": v["label"], "ast": st, "signature": s},
                              {"original": r["base"], "renamed": v["obs"]})
    if regen:
        for s, items in sorted(sigs.items(), key=lambda kv: -len(kv[1])):
            print(len(items), s)
            for a, b in sorted(items, key=lambda x: len(x[1]))[:3]:
                print("     ", a, " ==> ", b)
        return 0
    for (st, vs) in [t[:2] for t in tasks[:: max(1, len(tasks) // 4)][:4]]:
        rep.sample({"sql": sqlgen.render(st), "variants": [v[0] for v in vs[:6]], "n_variants": len(vs)})
    rep.coverage.update(
        evaluations=n_var,
        distinct_nontrivial=len(nontrivial),
        statements_with_local_names=len(tasks),
        rule=f"generator cases around the centres {[(p[0], p[2]) for p in plan]} x all injective maps of their <= 3 local names (at most 1 quick / 2 thorough non-fresh names) into the pool "
        "{zq1..3, bare name of a qualified table read, bare name of the target, a column name in use, MixedCase, soft keyword} that keep the "
        "statement unambiguous, + AS toggle, + alias added / removed per base table; everything once with the default configuration and once with DEFAULT_SCHEMA=ods; non-trivial = variant that uses a non-fresh name or an alias toggle",
        exhaustive=True,
        bound_completed={"plan (centre, deviations)": [(p[0], p[2]) for p in plan], "max_local_names": 3},
        rejected_by_parser=n_skip,
    )
    rep.assumptions += [
        "validity of a renaming is decided by reference scope rules, not by the outcome",
        "known findings matched by exact signature (variant kind, kinds of new names, which observation parts differ) from known_findings.json",
    ]
    return rep.finish()


def replay(body: dict, opts: dict) -> int:
    c = body["case"]
    st = c["ast"]
    vs = [v for v in renamings(st, "thorough") if v[0] == c["variant"]]
    r = _eval((st, vs))
    print(json.dumps(r, indent=1)[:3000])
    v = r["variants"][0] if r["variants"] else {"ok": True}
    if v.get("ok") or v.get("skip"):
        print("OK on replay")
        return 0
    s = sig_of(st, v["label"], r["base"], v["obs"])
    f = common.Findings("C08")
    fid = next((e["id"] for e in f.entries.values() if s in e.get("signatures", [])), None)
    if fid:
        print(f"KNOWN-FINDING: property=C08 {fid}")
        return 0
    print(f"VIOLATION property=C08 replay={opts.get('path', '<replayed>')}")
    return 1
