"""C06 - column lineage is well-formed and consistent with table lineage.

Invariants I1-I7 (vmc/monitors.py) evaluated on every result of the shared space of results: generator cases of C01-C05
at their quick / thorough bounds rendered to real scripts, and the whole corpus under each item's own dialects.
"""
from __future__ import annotations

from vmc import monitored


def run(tier, opts):
    return monitored.run("C06", tier, opts)


def replay(body, opts):
    return monitored.replay("C06", body, opts)
