"""E9 - corpus built on every run from the repository's current tree:
(a) the SQL of the test-suite, harvested by importing tests/sql/** with the assert helpers replaced by recorders and
    calling every test function over its parametrisation, (b) the bundled TPC-DS queries, (c) README / doc examples.
The corpus is never the deciding space on its own; it seeds C07, C10, C11 and feeds the monitors of C06 / C18.
"""
from __future__ import annotations

import glob
import importlib
import inspect
import os
import re
import sys

from vmc import common

_CACHE: dict = {}


def harvest_tests():
    repo = common.REPO
    if repo not in sys.path:
        sys.path.insert(0, repo)
    import tests.helpers as H

    rec = []
    cur = [None]

    def rec_table(sql, source_tables=None, target_tables=None, dialect="ansi", test_sqlfluff=True, test_sqlparse=True, **kw):
        rec.append({"id": cur[0], "kind": "table", "sql": sql, "dialect": dialect, "fluff": test_sqlfluff, "parse": test_sqlparse, "md": None})

    def rec_col(sql, column_lineages=None, dialect="ansi", metadata_provider=None, test_sqlfluff=True, test_sqlparse=True, **kw):
        md = getattr(metadata_provider, "metadata", None) if metadata_provider is not None else None
        if metadata_provider is not None and md is None:
            return  # SQLAlchemy-backed twin of a dict-backed case
        rec.append({"id": cur[0], "kind": "column", "sql": sql, "dialect": dialect, "fluff": test_sqlfluff, "parse": test_sqlparse, "md": md})

    saved = (H.assert_table_lineage_equal, H.assert_column_lineage_equal)
    H.assert_table_lineage_equal, H.assert_column_lineage_equal = rec_table, rec_col
    try:
        mods = []
        for root, _, files in os.walk(os.path.join(repo, "tests", "sql")):
            for f in files:
                if f.startswith("test_") and f.endswith(".py"):
                    mods.append(os.path.relpath(os.path.join(root, f), repo)[:-3].replace("/", "."))
        for m in sorted(mods):
            for k in [k for k in sys.modules if k == m]:
                del sys.modules[k]
            try:
                mod = importlib.import_module(m)
            except Exception:  # noqa
                continue
            # modules bind the helpers by name at import: rebind
            for name in ("assert_table_lineage_equal", "assert_column_lineage_equal"):
                if hasattr(mod, name):
                    setattr(mod, name, rec_table if "table" in name else rec_col)
            for name, fn in inspect.getmembers(mod, inspect.isfunction):
                if not name.startswith("test_") or fn.__module__ != m:
                    continue
                marks = getattr(fn, "pytestmark", [])
                combos = [{}]
                for mk in [mk for mk in marks if mk.name == "parametrize"]:
                    argn, vals = mk.args[0], mk.args[1]
                    names = [a.strip() for a in argn.split(",")] if isinstance(argn, str) else list(argn)
                    new = []
                    for c in combos:
                        for v in vals:
                            v = getattr(v, "values", v)
                            vv = v if len(names) > 1 else (v[0] if isinstance(v, tuple) and len(v) == 1 and not isinstance(v, str) else v,)
                            d = dict(c)
                            d.update(dict(zip(names, vv)))
                            new.append(d)
                    combos = new
                for i, c in enumerate(combos):
                    tag = ",".join(str(v) if isinstance(v, str) and len(v) < 20 else type(v).__name__ for v in c.values())
                    cur[0] = f"{m}::{name}[{tag}]" if c else f"{m}::{name}"
                    try:
                        fn(**c)
                    except Exception:  # noqa - a test body may do more than call the helpers
                        pass
    finally:
        H.assert_table_lineage_equal, H.assert_column_lineage_equal = saved
    # disambiguate ids (a test function may call a helper several times)
    seen = {}
    for r in rec:
        k = seen.get(r["id"], 0)
        seen[r["id"]] = k + 1
        r["id"] = f"{r['id']}#{k}"
    return rec


def tpcds():
    out = []
    for f in sorted(glob.glob(os.path.join(common.REPO, "sqllineage", "data", "tpcds", "*.sql"))):
        out.append({"id": "tpcds/" + os.path.basename(f), "kind": "column", "sql": open(f).read(), "dialect": "ansi", "fluff": True, "parse": False, "md": None})
    return out


def readme_examples():
    out = []
    p = os.path.join(common.REPO, "README.md")
    if os.path.exists(p):
        txt = open(p).read()
        for i, m in enumerate(re.finditer(r'sqllineage -e "([^"]+)"', txt)):
            out.append({"id": f"README#{i}", "kind": "column", "sql": m.group(1), "dialect": "ansi", "fluff": True, "parse": True, "md": None})
    for f in sorted(glob.glob(os.path.join(common.REPO, "sqllineage", "data", "**", "*.sql"), recursive=True)):
        if "/tpcds/" in f:
            continue
        out.append({"id": "data/" + os.path.relpath(f, os.path.join(common.REPO, "sqllineage", "data")), "kind": "column", "sql": open(f).read(), "dialect": "ansi", "fluff": True, "parse": True, "md": None})
    return out


def corpus(parts=("tests", "tpcds", "docs")):
    key = tuple(parts)
    if key not in _CACHE:
        items = []
        if "tests" in parts:
            items += harvest_tests()
        if "tpcds" in parts:
            items += tpcds()
        if "docs" in parts:
            items += readme_examples()
        # de-duplicate by (sql, dialect, md)
        seen = set()
        out = []
        for r in items:
            k = (r["sql"], r["dialect"], repr(r["md"]))
            if k not in seen:
                seen.add(k)
                out.append(r)
        _CACHE[key] = out
    return _CACHE[key]


def dialects_of(rec):
    """the dialects a corpus item is meant for"""
    ds = []
    if rec["fluff"]:
        ds.append(rec["dialect"])
    if rec["parse"]:
        ds.append("non-validating")
    return ds
