"""CLI:  ./check <ID> --tier quick|thorough   |   ./check <ID> --replay FILE   |   ./check --selftest

exit 0: property held on everything explored (known findings are printed as KNOWN-FINDING lines)
exit 1: violation (a line `VIOLATION property=<ID> replay=<path>` per replay file written)
exit 2: harness error (nothing is claimed)
"""
from __future__ import annotations

import argparse
import importlib
import json
import os
import sys
import traceback

from vmc import common


def main(argv=None) -> int:
    argv = list(sys.argv[1:] if argv is None else argv)
    common.pin_environment(argv)
    ap = argparse.ArgumentParser(prog="check")
    ap.add_argument("prop", nargs="?")
    ap.add_argument("--tier", default=os.environ.get("VERIF_TIER", "quick"), choices=["quick", "thorough"])
    ap.add_argument("--replay")
    ap.add_argument("--selftest", action="store_true")
    ap.add_argument("--regen-pins", action="store_true", help="maintenance only: rewrite pins/<ID>.json")
    ap.add_argument("--opt", action="append", default=[], help="driver option key=value")
    a = ap.parse_args(argv)
    sys.path.insert(0, common.REPO)
    import warnings

    warnings.simplefilter("ignore")
    import logging

    logging.disable(logging.CRITICAL)
    common.scratch_cwd()
    try:
        if a.selftest:
            from vmc import selftest

            return selftest.run()
        if not a.prop:
            ap.error("property id required")
        mod = importlib.import_module("vmc." + a.prop.lower())
        opts = dict(o.split("=", 1) for o in a.opt)
        if a.replay:
            body = json.load(open(a.replay))
            return mod.replay(body, opts)
        if a.regen_pins:
            opts["regen_pins"] = "1"
        return mod.run(a.tier, opts)
    except common.HarnessError as e:
        print(f"HARNESS-ERROR {e}", file=sys.stderr)
        return 2
    except Exception:
        traceback.print_exc()
        print("HARNESS-ERROR unexpected exception in driver", file=sys.stderr)
        return 2
    finally:
        common.cleanup_scratch()


if __name__ == "__main__":
    sys.exit(main())
