"""C02 - single-statement column lineage is exact.

Same explorer and generator as C01 with the column-level choice points switched on (1-3 select items, 14 item
kinds, qualified / unqualified references, which in-scope relation a reference targets, derived tables, CTEs,
set operations of 2-3 branches, explicit column list, UPDATE..FROM and MERGE arms). Oracle: refsem.columns -
the set of end-to-end (source column, target column) pairs, unresolved sources with their candidate lists.
"""
from __future__ import annotations

import json
import time

from vmc import common, observe, refsem, sqlgen
from vmc.c01 import QUICK_DIALECTS, SELECT_INTO_OK, _write_pins, all_dialects, enumerate_cases, enumerate_plan
from vmc.common import HarnessError, Report, pmap

PGCAST_OK = {"postgres", "redshift", "snowflake", "duckdb", "greenplum", "materialize", "databricks", "sparksql", "trino", "athena", "bigquery_no"}


def _eval(task):
    st, dialect = task
    sql = sqlgen.render(st, sqlgen.R(dialect=dialect))
    obs = observe.observe(sql, dialect, level="columns")
    if "exception" in obs:
        if obs["exception"] == "InvalidSyntaxException" and not observe.sqlfluff_accepts(sql, dialect):
            return {"sql": sql, "skip": "rejected-by-dialect"}
        return {"sql": sql, "bad": "exception", "obs": obs}
    exp = refsem.columns(st)
    got = {tuple(p) for p in obs["pairs"]}
    if got == exp:
        return {"sql": sql, "ok": True, "n": len(exp)}
    return {
        "sql": sql,
        "bad": "columns",
        "obs": {"pairs": sorted(got)},
        "expected": sorted(exp),
        "delta": {"missing": sorted(exp - got), "extra": sorted(got - exp)},
    }


def _has_lca(st):
    hit = []
    sqlgen.walk_queries(st, lambda q: hit.extend(1 for b in q["branches"] for it in b["items"] if it.get("lca")))
    return bool(hit)


def _reads_alias_of_earlier_branch(st):
    """a later branch of a set operation reads a column named like a select alias of an earlier branch (the alias_colname choice point)"""
    hit = []

    def q(qq):
        seen = set()
        for b in qq["branches"]:
            def cols(e):
                if e[0] == "col":
                    if e[2] in seen:
                        hit.append(1)
                elif e[0] in ("func", "coalesce"):
                    for a in e[1]:
                        cols(a)
                elif e[0] in ("arith", "case", "window", "cast", "pgcast"):
                    for a in e[1:]:
                        if isinstance(a, list):
                            cols(a)
            for it in b["items"]:
                cols(it["e"])
            seen |= {it["alias"] for it in b["items"] if it["alias"]}

    sqlgen.walk_queries(st, q)
    return bool(hit)


def _eval_lca(st):
    """lateral column alias reference on, with a provider that knows every base table (the setting needs one)"""
    from sqllineage.config import SQLLineageConfig
    from sqllineage.core.metadata.dummy import DummyMetaDataProvider

    from vmc import c13

    S = c13.SCHEMA
    sql = sqlgen.render(st, sqlgen.R(qualify=S))
    sure, maybe, star = c13.referenced(st)
    K = {}
    bases = sorted({refsem.fq(t, S) for t in sqlgen.base_tables(st)})
    for b in bases:
        # well-formed knowledge: a column read unqualified over a join belongs to ONE of its candidates (the first by name) -
        # were it listed by two, the statement would be ambiguous SQL
        mine = {c for c in maybe.get(b, ()) if b == min(x for x in bases if c in maybe.get(x, ()))}
        K[b] = sorted(set(sure.get(b, ())) | mine) + ["id"]
    # the aliases themselves are not columns of the sources
    aliases = set()
    sqlgen.walk_queries(st, lambda q: aliases.update(it["alias"] for b in q["branches"] for it in b["items"] if it["alias"]))
    K = {b: [c for c in cols if c not in aliases] for b, cols in K.items()}
    with SQLLineageConfig(LATERAL_COLUMN_ALIAS_REFERENCE=True):
        obs = observe.observe(sql, "ansi", provider=DummyMetaDataProvider({k: list(v) for k, v in K.items()}), level="columns")
    if "exception" in obs:
        return {"sql": sql, "bad": "exception", "obs": obs}
    refsem.LCA_ON[0] = True
    try:
        exp = refsem.columns(st, K, S)
    finally:
        refsem.LCA_ON[0] = False
    got = {tuple(p) for p in obs["pairs"]}
    if got == exp:
        return {"sql": sql, "ok": True}
    return {"sql": sql, "bad": "columns", "obs": {"pairs": sorted(got)}, "expected": sorted(exp), "delta": {"missing": sorted(exp - got), "extra": sorted(got - exp)}, "K": K}


def ast_info(st, K=None):
    """structural predicates over the AST used to attribute a disagreement to a triaged finding class"""
    info = {"dup_names_in_setop": False, "star_over_sub_and_base": False, "star_beside_named_over_star_sub": False,
            "join_inside_derived_under_join": False, "unq_multi_levels": 0, "star_over_relations_sharing_a_name": False,
            "star_over_two_relations_one_local": False}

    def names_of(sel):
        return [it["alias"] or (it["e"][2] if it["e"][0] == "col" else None) for it in sel["items"]]

    def is_star_sub(r):
        return r["k"] == "derived" and any(it["e"][0] == "star" for it in r["q"]["branches"][0]["items"])

    cte_names = {}

    def q(qq):
        for c in qq["ctes"]:
            cte_names[c["name"]] = sqlgen.out_names(c["q"]) or []
        if len(qq["branches"]) > 1:
            n = [x for x in names_of(qq["branches"][0]) if x]
            if len(n) != len(set(n)):
                info["dup_names_in_setop"] = True
        for sel in qq["branches"]:
            rels = sel["from"]["rels"]
            kinds = [it["e"][0] for it in sel["items"]]
            if "star" in kinds and any(r["k"] != "base" for r in rels) and any(r["k"] == "base" for r in rels):
                info["star_over_sub_and_base"] = True
            if "star" in kinds and len(rels) > 1 and any(r["k"] != "base" for r in rels):
                info["star_over_two_relations_one_local"] = True
            if "star" in kinds and len(kinds) > 1 and any(is_star_sub(r) for r in rels):
                info["star_beside_named_over_star_sub"] = True
            if len(rels) > 1 and any(r["k"] == "derived" and any(len(b["from"]["rels"]) > 1 for b in r["q"]["branches"]) for r in rels):
                info["join_inside_derived_under_join"] = True
            if len(rels) > 1 and any(_has_unq(it["e"]) for it in sel["items"]):
                info["unq_multi_levels"] += 1
            if "star" in kinds:
                # output names of the select list with every star expanded (derived / CTE output lists, known base tables)
                def rel_names(r):
                    if r["k"] == "derived":
                        return [n for n in (sqlgen.out_names(r["q"]) or []) if n]
                    if r["k"] == "cte":
                        return [n for n in cte_names.get(r["name"], []) if n]
                    return list((K or {}).get(refsem.fq(r["t"], K and "main"), []))

                exposed = []
                for it in sel["items"]:
                    if it["e"][0] == "star":
                        for r in rels:
                            if it["e"][1] is None or it["e"][1] in (r.get("alias"), r.get("name"), (r.get("t") or {}).get("n")):
                                exposed += rel_names(r)
                    else:
                        n = it["alias"] or (it["e"][2] if it["e"][0] == "col" else None)
                        if n:
                            exposed.append(n)
                if len(exposed) != len(set(exposed)):
                    info["star_over_relations_sharing_a_name"] = True

    sqlgen.walk_queries(st, q)
    if st["kind"] == "update" and st.get("from") and len(st["from"]["rels"]) > 1:
        info["unq_multi_levels"] += 1
    return info


def _has_unq(e):
    if e[0] == "col":
        return e[1] is None
    return any(_has_unq(a) for a in e[1:] if isinstance(a, list) and a and isinstance(a[0], str)) or any(
        _has_unq(b) for a in e[1:] if isinstance(a, list) and a and isinstance(a[0], list) for b in a
    )


def classify(st, dialect, res):
    """triaged classes of disagreement on the unchanged tree (DESIGN.md section 10); anything else is refused"""
    f = sqlgen.features(st)
    if res["bad"] != "columns":
        return None
    d = res["delta"]
    miss, extra = d["missing"], d["extra"]
    info = ast_info(st, res.get("K"))
    has_lit = "item:lit" in f
    if dialect == "tsql" and ("kind:update" in f or "kind:merge" in f) and miss and not extra and not res["obs"]["pairs"]:
        return "F-C09-tsql-update-merge-without-column-lineage"
    local = set(sqlgen.local_names(st))
    if ("from:paren_join_join" in f or "from:join_paren_join" in f) and extra and any(
        any(f"<default>.{loc}." in x for loc in local for x in e) or "subquery#" in e[0] for e in extra
    ):
        return "F-C02-alias-inside-parenthesised-join-not-recognised"
    if "kind:update" in f and not st.get("from") and miss and extra and all("." not in e[0] for e in extra):
        return "F-C02-update-without-from-source-column-has-no-owner"
    if info["star_over_relations_sharing_a_name"] and miss and (not extra or res.get("K") or st.get("collist")):
        return "F-C11-star-over-tables-sharing-a-column-name"
    if info["join_inside_derived_under_join"] and res.get("K") and miss and not extra:
        # with every table known the leaked table is resolved against directly, bypassing the derived table's other branches
        return "F-C02-join-inside-derived-table-leaks-into-outer-scope"
    if info["join_inside_derived_under_join"] and "item:star" in f and extra and not miss and all(e[0] == "<none>" for e in extra):
        return "F-C02-join-inside-derived-table-leaks-into-outer-scope"  # the leaked table's wildcard is left without a target
    if info["dup_names_in_setop"]:
        return "F-C02-duplicate-output-names-in-set-operation"
    if info["star_beside_named_over_star_sub"]:
        return "F-C02-named-column-through-star-subquery"
    if st.get("collist") and "item:star" in f and any(e[0] == "<none>" and e[1].rsplit(".", 1)[1] in st["collist"] for e in extra):
        return "F-C02-column-list-ignored-next-to-star"
    if info["star_over_sub_and_base"] and any(e[0] == "<none>" for e in extra):
        return "F-C02-star-over-subquery-and-base-table"
    if info["star_over_two_relations_one_local"] and miss and not extra:
        return "F-C02-star-over-subquery-and-base-table"
    if extra and all(e[0].split(".")[0] in local for e in extra) and "item:star" in f and ("rel:derived" in f or "rel:cte" in f) and len(miss) >= len(extra):
        return "F-C02-named-column-through-star-subquery"
    if info["join_inside_derived_under_join"] and any(e[0].startswith("?") for e in extra) and any(m[0].startswith("?") for m in miss):
        return "F-C02-join-inside-derived-table-leaks-into-outer-scope"
    if info["unq_multi_levels"] >= 2 and miss and not extra and any(p[0].startswith("?") for p in res["obs"]["pairs"]):
        return "F-C04-unresolved-columns-of-equal-name-merge"
    if miss and not extra and "item:star" in f and "setop" in f and "rel:derived" in f:
        return "F-C02-named-column-through-star-subquery"  # with metadata: only the first branch of the star union is expanded
    if has_lit and "setop" in f:
        return "F-C02-literal-in-set-operation"
    if has_lit:
        return "F-C02-literal-select-item"
    return None


def run(tier: str, opts: dict) -> int:
    rep = Report("C02", tier, "exploration")
    D = int(opts.get("D", 3))
    depth = int(opts.get("depth", 2))
    dialects = ["ansi", "tsql", "sparksql", "postgres", "mysql"] if tier == "quick" else all_dialects()
    if "dialects" in opts:
        dialects = opts["dialects"].split(",")
    C = sqlgen.CENTRES
    if tier == "quick":
        plan = [("simple", C["simple"], D), ("join", C["join"], 2), ("derived", C["derived"], 1), ("cte", C["cte"], 1), ("star", C["star"], 1), ("setop", C["setop"], 1)]
    else:
        plan = [("simple", C["simple"], D), ("join", C["join"], 3), ("derived", C["derived"], 2), ("cte", C["cte"], 2), ("star", C["star"], 2), ("setop", C["setop"], 2)]
    if "centres" in opts:
        plan = [p for p in plan if p[0] in opts["centres"].split(",")]
    cases, n_exec = enumerate_plan(plan, depth)
    tasks = []
    for sql, (st, trace, ndev, centre) in cases:
        f = sqlgen.features(st)
        if centre != "simple":
            ndev += 2  # dialect fan-out is decided relative to the simple centre
        for d in dialects:
            if st["kind"] == "select_into" and d not in SELECT_INTO_OK:
                continue
            if "item:pgcast" in f and d not in PGCAST_OK:
                continue
            if d != "ansi" and ndev >= (2 if tier == "quick" else 3) and not (f & {"kind:update", "kind:merge", "kind:select_into", "item:pgcast"}):
                continue  # quick: dialect fan-out for the D<=1 ball and for dialect-specific statement forms only
            tasks.append((st, d))
    res = pmap(_eval, tasks, chunk=16)
    regen = opts.get("regen_pins")
    ansi_res = {id(st): r for (st, d), r in zip(tasks, res) if d == "ansi" and not r.get("skip")}
    new_pins, unclassified = {}, []
    per_dialect, nontrivial, skipped = {}, set(), 0
    for (st, d), r in zip(tasks, res):
        pd = per_dialect.setdefault(d, {"accepted": 0, "rejected": 0, "disagree": 0})
        if r.get("skip"):
            pd["rejected"] += 1
            skipped += 1
            if d == "ansi" and "item:pgcast" not in sqlgen.features(st):
                raise HarnessError(f"generated statement rejected by ansi: {r['sql']}")
            continue
        pd["accepted"] += 1
        if r.get("n", 2) >= 2 or "delta" in r:
            nontrivial.add(r["sql"])
        if r.get("ok"):
            continue
        pd["disagree"] += 1
        key = f"{d}|{r['sql']}"
        dg = common.digest(r["obs"])
        if regen:
            fid = classify(st, d, r)
            if fid is None and d != "ansi" and id(st) in ansi_res:
                ar = ansi_res[id(st)]
                if ar.get("ok") or r.get("obs") != ar.get("obs"):
                    fid = f"F-C09-{d}-deviates"  # this dialect's answer differs from ansi's (which may itself be a listed finding)
                else:
                    fid = classify(st, "ansi", ar)  # the same wrong answer as under ansi
            if fid is None:
                unclassified.append((key, r))
            else:
                new_pins[key] = [fid, dg]
            continue
        fid = rep.findings.pinned(key, dg)
        if fid:
            rep.known_finding(fid)
        else:
            rep.violation(r["bad"], {"dialect": d, "sql": r["sql"], "ast": st}, {k: r[k] for k in ("obs", "expected", "delta") if k in r})
    # lateral column alias references (configuration LATERAL_COLUMN_ALIAS_REFERENCE on, provider in use)
    lca_cases = [st for sql, (st, trace, ndev) in enumerate_cases(sqlgen.COLUMN_LCA, 2 if tier == "quick" else 3, depth)[0]
                 if _has_lca(st) and st["kind"] in ("insert", "ctas", "view") and "item:pgcast" not in sqlgen.features(st)
                 and not (ndev >= 3 and _reads_alias_of_earlier_branch(st))]  # that choice point is explored up to two deviations in both tiers
    for st, r in zip(lca_cases, pmap(_eval_lca, lca_cases, chunk=16)):
        if r.get("ok"):
            continue
        key = f"lca|{r['sql']}"
        dg = common.digest(r["obs"])
        if regen:
            fid = classify(st, "ansi", r) if r["bad"] == "columns" else None
            if fid is None:
                unclassified.append((key, r))
            else:
                new_pins[key] = [fid, dg]
            continue
        fid = rep.findings.pinned(key, dg)
        if fid:
            rep.known_finding(fid)
        else:
            rep.violation("lateral-column-alias-" + r["bad"], {"dialect": "ansi", "sql": r["sql"], "ast": st, "lca": True}, {k: r[k] for k in ("obs", "expected", "delta", "K") if k in r})
    if regen:
        return _write_pins("C02", new_pins, unclassified, replace=(tier == "thorough"))
    for sql, (st, trace, ndev, centre) in cases[:: max(1, len(cases) // 5)][:5]:
        rep.sample({"sql": sql, "centre": centre, "choice_trace": trace, "deviations": ndev, "expected_pairs": sorted(refsem.columns(st))})
    rep.coverage.update(
        evaluations=len(tasks),
        distinct_nontrivial=len(nontrivial),
        generator_executions=n_exec,
        distinct_statements=len(cases),
        rule=f"all choice sequences with <= {D} deviations over statement kind x query form x FROM shape (5) x relation kind (9) x "
        f"1-3 select items x item kind (14) x reference target x qualified/unqualified, nesting depth <= {depth}; "
        "non-trivial = distinct rendered statement with >= 2 expected column pairs or a disagreement",
        exhaustive=True,
        bound_completed={"plan (centre, deviations)": [(p[0], p[2]) for p in plan], "depth": depth, "dialects": dialects},
        centres={p[0]: sqlgen.render(__import__("vmc.explorer", fromlist=["replay"]).replay(lambda c, pr=p[1]: sqlgen.gen_statement(c, pr, depth), [])[1]) for p in plan},
        per_dialect=per_dialect,
        rejected_by_dialect=skipped,
        lateral_column_alias_cases=len(lca_cases),
    )
    rep.assumptions += [
        "reference semantics refsem.columns written from the property text (self-tested against hand-written expectations)",
        "un-aliased expression columns are never generated (their display name is presentation); every expression item carries an alias",
        "known findings matched exactly from pins/C02.json",
    ]
    return rep.finish()


def replay(body: dict, opts: dict) -> int:
    c = body["case"]
    r = _eval_lca(c["ast"]) if c.get("lca") else _eval((c["ast"], c["dialect"]))
    print(json.dumps(r, indent=1, default=str)[:3000])
    if r.get("ok") or r.get("skip"):
        print("OK on replay")
        return 0
    fid = common.Findings("C02").pinned(f"{'lca' if c.get('lca') else c['dialect']}|{r['sql']}", common.digest(r["obs"]))
    if fid:
        print(f"KNOWN-FINDING: property=C02 {fid}")
        return 0
    print(f"VIOLATION property=C02 replay={opts.get('path', '<replayed>')}")
    return 1
