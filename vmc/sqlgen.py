"""E6 (part 1) - core-SQL AST, generator over labelled choice points, renderer.

The AST is plain JSON-able data (dicts / lists), so a case can be stored in a replay file, re-rendered under
another dialect family, alpha-renamed (C08), re-qualified (C14) and evaluated by the reference semantics
(refsem.py) independently of how it was generated.

  Statement {"kind", "target": T|None, "collist": [str]|None, "q": Query|None, ...kind specific}
  T         {"s": schema|None, "n": name}
  Query     {"ctes": [{"name", "q": Query}], "branches": [Select], "ops": [str]}
  Select    {"items": [Item], "from": From, "where": Pred|None, "tail": None|"group"|{"having": Query}}
  From      {"shape": str, "rels": [Rel]}
  Rel       {"k": "base", "t": T, "alias": str|None, "as": bool} | {"k": "derived", "q": Query, "alias": str}
            | {"k": "cte", "name": str, "alias": str|None}
  Item      {"e": Expr, "alias": str|None}
  Expr      ["col", qual|None, name] | ["star", qual|None] | ["lit"] | ["func", [Expr]] | ["arith", Expr, Expr]
            | ["case", Expr, Expr] | ["cast", Expr] | ["pgcast", Expr] | ["window", Expr, Expr, Expr|None]
            | ["coalesce", [Expr]] | ["subq", Query] | ["casesubq", Expr, Query]
  Pred      ["lit"] | ["in", Query] | ["exists", Query] | ["cmp", Query] | ["and", Pred, Pred]

Alternative 0 of every choice point is the simplest one; alternatives are ordered simplest-first.
"""
from __future__ import annotations

import copy

# ------------------------------------------------------------------------------------------------
# profiles: which alternatives a choice point offers
# ------------------------------------------------------------------------------------------------
TABLE_PROFILE = {
    "kinds": ["insert", "ctas", "view", "bare", "insert_cols", "select_into", "update", "update_from", "merge", "merge_derived", "delete", "truncate", "update_self"],
    "query": ["select", "union", "union3", "with", "with2", "with_recursive", "union_paren"],
    "from": ["one", "join", "comma", "join3", "left_using", "cross", "join_comma", "comma_join", "nested_paren", "paren_join_join", "join_paren_join", "full_outer"],
    "rel": ["base", "base_alias", "qualified", "qualified_alias", "derived", "derived_union", "cte", "cte_alias", "cte_quoted", "base_quoted", "base_target", "path_quoted"],
    "where": ["none", "lit", "in_sub", "exists", "scalar_cmp", "and_two", "scalar_cmp_both"],
    "items": ["col", "star", "scalar_sub", "case_sub"],
    "tail": ["none", "group", "having_sub"],
    "nitems": [1],
    "colref_style": ["unq"],
    "alias_reuse": True,
}

COLUMN_PROFILE = {
    "kinds": ["insert", "ctas", "insert_cols", "view", "select_into", "update_from", "merge", "update_self", "merge_two_inserts", "view_cols"],
    "query": ["select", "union", "with", "union3", "union_paren"],
    "from": ["one", "join", "comma", "left_using", "join3", "join_paren_join", "paren_join_join"],
    "rel": ["base", "base_alias", "qualified_alias", "qualified", "derived", "derived_union", "derived_star", "cte", "cte_alias"],
    "where": ["none"],
    "items": ["col", "alias", "func", "arith", "case", "cast", "window", "literal", "star", "qstar", "coalesce2", "window_order", "nested_func", "pgcast"],
    "tail": ["none"],
    "nitems": [1, 2, 3],
    "colref_style": ["unq", "qual", "fullqual"],
    "alias_reuse": True,
    "colname_reuse": True,
}

# the table profile as it was before the fourth round (no two-sided comparison, whole-path quoting, alias re-use): the thorough tiers explore
# THESE alternatives to their full bound and the newer ones to the quick bound (DESIGN.md 12.7)
TABLE_PROFILE_R3 = {k: v for k, v in TABLE_PROFILE.items() if k != "alias_reuse"}
TABLE_PROFILE_R3["rel"] = [r for r in TABLE_PROFILE["rel"] if r != "path_quoted"]
TABLE_PROFILE_R3["where"] = [w for w in TABLE_PROFILE["where"] if w != "scalar_cmp_both"]

# a second centre for the table-level ball: a set operation whose branches each read a derived table (alias re-use across branches is then
# one deviation away)
TABLE_SETOP = dict(TABLE_PROFILE, top={"query": ["union"], "rel": ["derived"]})

# file paths as sources and targets (C01: "base tables and file paths"): COPY in both directions, INSERT OVERWRITE DIRECTORY,
# files read in FROM (spark family). Centre: INSERT OVERWRITE DIRECTORY '<p>' SELECT c1 FROM parquet.`<p>`
PATH_PROFILE = dict(
    TABLE_PROFILE,
    kinds=["insert_dir", "copy_from", "copy_to", "copy_query_to", "insert", "ctas", "bare", "view", "insert_cols"],
    rel=["path", "path_alias", "base", "base_alias", "qualified", "derived", "derived_union", "cte", "cte_alias"],
)

# further centres of the deviation ball (same alternatives, other defaults at the top level of the query)
COLUMN_RICH_JOIN = dict(COLUMN_PROFILE, top={"from": ["join"], "rel": ["base_alias"], "nitems": [2], "colref_style": ["qual"]})
COLUMN_RICH_DERIVED = dict(COLUMN_PROFILE, top={"from": ["join"], "rel": ["derived"], "nitems": [2], "colref_style": ["qual"]})
COLUMN_RICH_CTE = dict(COLUMN_PROFILE, top={"query": ["with"], "from": ["join"], "rel": ["cte_alias", "base_alias"], "nitems": [2], "colref_style": ["qual"]})
COLUMN_RICH_STAR = dict(COLUMN_PROFILE, top={"from": ["join"], "rel": ["derived"], "nitems": [2], "items": ["qstar"], "colref_style": ["qual"]})
COLUMN_LCA = dict(COLUMN_PROFILE, items=COLUMN_PROFILE["items"] + ["lca"], top={"nitems": [2], "items": ["lca"]}, alias_as_colname=True)
COLUMN_RICH_SETOP = dict(COLUMN_PROFILE, top={"query": ["union"], "rel": ["derived"], "colref_style": ["qual"]})
CENTRES = {"setop": COLUMN_RICH_SETOP, "simple": COLUMN_PROFILE, "join": COLUMN_RICH_JOIN, "derived": COLUMN_RICH_DERIVED, "cte": COLUMN_RICH_CTE, "star": COLUMN_RICH_STAR}


class Ctx:
    def __init__(self, ch, profile, depth):
        self.ch = ch
        self.p = profile
        self.depth = depth
        self.nt = 0
        self.na = 0
        self.nc = 0
        self.nx = 0
        self.ctes: dict[str, list] = {}  # name -> exposed column names (None = anything / star)
        self.all_aliases: list[str] = []
        self.scopes: list[set] = []

    def base(self):
        self.nt += 1
        return f"t{self.nt}"

    def alias(self, path=None):
        """a fresh alias, or - as the last alternative - an alias already used in another (finished or enclosing)
        FROM scope: legal SQL, and exactly where identity-by-name goes wrong"""
        reusable = [a for a in self.all_aliases if a not in self.scopes[-1]] if (path and self.p.get("alias_reuse") and self.scopes) else []
        if reusable and self.ch.choose(path + ".alias_reuse", 2) == 1:
            a = reusable[0]
        else:
            self.na += 1
            a = f"a{self.na}"
            self.all_aliases.append(a)
        if self.scopes:
            self.scopes[-1].add(a)
        return a

    def xname(self):
        self.nx += 1
        return f"x{self.nx}"

    def is_top(self, path):
        return not any(x in path for x in (".sub", ".cte", "m.sub"))

    def alts(self, key, path, extra_filter=None):
        alts = list(self.p[key])
        top = self.p.get("top")
        if top and key in top and self.is_top(path):
            # another centre for the deviation ball: the same alternatives, a different default at the top level
            alts = list(top[key]) + [a for a in alts if a not in top[key]]
        if extra_filter:
            alts = [a for a in alts if extra_filter(a)]
        return self.ch.pick(f"{path}.{key}", alts)


def T(name, schema=None):
    return {"s": schema, "n": name}


# ------------------------------------------------------------------------------------------------
# exposed column names of a relation (well-formedness of generated references)
# ------------------------------------------------------------------------------------------------
def out_names(q, ctes=None):
    """output column names of a query as the generator sees them; None when a star over a base table leaves them open"""
    ctes = ctes or {}
    names = []
    sel = q["branches"][0]
    for it in sel["items"]:
        e = it["e"]
        if e[0] == "star":
            for r in sel["from"]["rels"]:
                if e[1] is not None and e[1] != (r.get("alias") or (r["t"]["n"] if r["k"] == "base" else r.get("name"))):
                    continue
                if r["k"] in ("base", "path"):
                    return None
                sub = out_names(r["q"], ctes) if r["k"] == "derived" else ctes.get(r["name"])
                if sub is None:
                    return None
                names += sub
        else:
            names.append(it["alias"] or (e[2] if e[0] == "col" else None))
    return names


# ------------------------------------------------------------------------------------------------
# generator
# ------------------------------------------------------------------------------------------------
def gen_rel(ctx: Ctx, depth: int, path: str):
    def ok(a):
        if a in ("derived", "derived_union", "derived_star"):
            return depth > 0
        if a in ("cte", "cte_alias", "cte_quoted"):
            return bool(ctx.ctes)
        return True

    k = ctx.alts("rel", path, ok)
    if k in ("path", "path_alias"):  # a file read in FROM: parquet.`dir/p1/` (spark family)
        ctx.npath = getattr(ctx, "npath", 0) + 1
        fmt = ctx.ch.pick(path + ".fmt", ["parquet", "csv", "json"])
        return {"k": "path", "fmt": fmt, "uri": f"dir/p{ctx.npath}/", "alias": ctx.alias() if k == "path_alias" else None}
    if k == "base_target":  # the statement reads the table it writes (below the top level or next to other tables)
        return {"k": "base", "t": T("tgt"), "alias": ctx.alias(), "as": False}
    if k == "base_quoted":
        return {"k": "base", "t": T(ctx.base()), "alias": None, "as": False, "quoted": True}
    if k == "path_quoted":  # schema-qualified and quoted: part by part, or - where the dialect reads it as a dotted path (bigquery) - as a whole
        return {"k": "base", "t": T(ctx.base(), "s1"), "alias": None, "as": False, "quoted": "whole"}
    if k == "base":
        return {"k": "base", "t": T(ctx.base()), "alias": None, "as": False}
    if k == "base_alias":
        return {"k": "base", "t": T(ctx.base()), "alias": ctx.alias(), "as": False}
    if k == "qualified":
        return {"k": "base", "t": T(ctx.base(), "s1"), "alias": None, "as": False}
    if k == "qualified_alias":
        return {"k": "base", "t": T(ctx.base(), "s1"), "alias": ctx.alias(), "as": True}
    if k == "derived":
        q = {"ctes": [], "branches": [gen_select(ctx, depth - 1, path + ".sub")], "ops": []}
        return {"k": "derived", "q": q, "alias": ctx.alias(path)}
    if k == "derived_star":
        sel = {"items": [{"e": ["star", None], "alias": None}], "from": {"shape": "one", "rels": [{"k": "base", "t": T(ctx.base()), "alias": None, "as": False}]}, "where": None, "tail": None}
        return {"k": "derived", "q": {"ctes": [], "branches": [sel], "ops": []}, "alias": ctx.alias()}
    if k == "derived_union":
        b1 = gen_select(ctx, depth - 1, path + ".sub[0]")
        b2 = gen_select(ctx, depth - 1, path + ".sub[1]", arity=len(b1["items"]), no_star=_has_star(b1) is False)
        if _has_star(b1) != _has_star(b2):
            b2 = copy.deepcopy(b1)
            _rebase(ctx, b2)
        return {"k": "derived", "q": {"ctes": [], "branches": [b1, b2], "ops": ["UNION ALL"]}, "alias": ctx.alias()}
    name = sorted(ctx.ctes)[-1]
    return {"k": "cte", "name": name, "alias": ctx.alias() if k == "cte_alias" else None, "quoted": k == "cte_quoted"}


def _has_star(sel):
    return any(it["e"][0] == "star" for it in sel["items"])


def _rebase(ctx, sel):
    """give a copied select fresh base table names (so that branches read different tables)"""
    for r in sel["from"]["rels"]:
        if r["k"] == "base":
            old = r["t"]["n"]
            r["t"] = T(ctx.base(), r["t"]["s"])
            for it in sel["items"]:
                if it["e"][0] == "star" and it["e"][1] == old:
                    it["e"][1] = r["t"]["n"]


SHAPE_ARITY = {"one": 1, "join": 2, "comma": 2, "join3": 3, "left_using": 2, "cross": 2, "join_comma": 3, "comma_join": 3, "nested_paren": 2,
               "paren_join_join": 3, "join_paren_join": 3, "full_outer": 2}


def gen_from(ctx: Ctx, depth: int, path: str):
    shape = ctx.alts("from", path)
    ctx.scopes.append(set())
    rels = [gen_rel(ctx, depth, f"{path}.rel[{i}]") for i in range(SHAPE_ARITY[shape])]
    ctx.scopes.pop()
    return {"shape": shape, "rels": rels}


def rel_info(ctx: Ctx, r):
    """(qualifier to use, exposed names or None)"""
    if r["k"] == "base":
        return (r["alias"] or r["t"]["n"], None)
    if r["k"] == "path":
        return (r["alias"], None)
    if r["k"] == "derived":
        return (r["alias"], out_names(r["q"], ctx.ctes))
    return (r["alias"] or r["name"], ctx.ctes[r["name"]])


def gen_colref(ctx: Ctx, rels, path: str):
    rot = 0
    if ctx.p.get("top") and ctx.is_top(path) and ".item[" in path:
        rot = int(path.split(".item[")[1].split("]")[0])  # rich centres: the i-th item reads the i-th relation by default
    r = rels[(ctx.ch.choose(f"{path}.rel", len(rels)) + rot) % len(rels)] if len(rels) > 1 else rels[0]
    style = ctx.alts("colref_style", path)
    qual, names = rel_info(ctx, r)
    ctx.nc += 1
    usable = [n for n in (names or []) if n]
    name = usable[0] if usable else f"c{ctx.nc}"
    if not usable and ctx.p.get("colname_reuse") and ctx.nc > 1 and ctx.ch.choose(f"{path}.colname_reuse", 2) == 1:
        name = "c1"  # the same column name in another place: identity-by-name is exactly where this matters
    earlier = getattr(ctx, "earlier_branch_aliases", None)
    if not usable and earlier and ctx.p.get("alias_as_colname") and ctx.ch.choose(f"{path}.alias_colname", 2) == 1:
        name = earlier[0]  # a column named like a select alias of an EARLIER branch of the set operation: an alias is local to its branch
    if style == "fullqual":  # schema.table.column where the relation is an unaliased schema-qualified table
        if r["k"] == "base" and r["t"]["s"] and not r["alias"]:
            qual = f"{r['t']['s']}.{r['t']['n']}"
        style = "qual"
    return ["col", qual if style == "qual" else None, name]


def gen_item(ctx: Ctx, rels, depth: int, path: str, no_star=False):
    def ok(a):
        if a in ("scalar_sub", "case_sub"):
            return depth > 0
        if a in ("star", "qstar"):
            return not no_star
        return True

    k = ctx.alts("items", path, ok)
    cr = lambda i: gen_colref(ctx, rels, f"{path}.ref[{i}]")  # noqa: E731
    if k == "col":
        return {"e": cr(0), "alias": None}
    if k == "star":
        return {"e": ["star", None], "alias": None}
    if k == "qstar":
        i = int(path.split(".item[")[1].split("]")[0]) if (ctx.p.get("top") and ctx.is_top(path) and ".item[" in path) else 0
        return {"e": ["star", rel_info(ctx, rels[i % len(rels)])[0]], "alias": None}
    if k == "alias":
        return {"e": cr(0), "alias": ctx.xname()}
    if k == "func":
        return {"e": ["func", [cr(0)]], "alias": ctx.xname()}
    if k == "nested_func":
        return {"e": ["func", [["arith", cr(0), ["func", [cr(1)]]]]], "alias": ctx.xname()}
    if k == "arith":
        return {"e": ["arith", cr(0), cr(1)], "alias": ctx.xname()}
    if k == "case":
        return {"e": ["case", cr(0), cr(1)], "alias": ctx.xname()}
    if k == "cast":
        return {"e": ["cast", cr(0)], "alias": ctx.xname()}
    if k == "pgcast":
        return {"e": ["pgcast", cr(0)], "alias": ctx.xname()}
    if k == "window":
        return {"e": ["window", cr(0), cr(1), None], "alias": ctx.xname()}
    if k == "window_order":
        return {"e": ["window", cr(0), cr(1), cr(2)], "alias": ctx.xname()}
    if k == "coalesce2":
        return {"e": ["coalesce", [cr(0), cr(1)]], "alias": ctx.xname()}
    if k == "lca":  # lateral column alias reference: an expression over the alias of the previous select item
        prev = getattr(ctx, "prev_alias", None)
        if prev and ctx.is_top(path):
            return {"e": ["arith", ["col", None, prev], cr(0)], "alias": ctx.xname(), "lca": True}
        return {"e": cr(0), "alias": ctx.xname()}
    if k == "literal":
        return {"e": ["lit"], "alias": ctx.xname()}
    sub = {"ctes": [], "branches": [gen_select(ctx, depth - 1, path + ".sub", arity=1, no_star=True)], "ops": []}
    if k == "scalar_sub":
        return {"e": ["subq", sub], "alias": ctx.xname()}
    return {"e": ["casesubq", cr(0), sub], "alias": ctx.xname()}


def gen_pred(ctx: Ctx, depth: int, path: str):
    k = ctx.alts("where", path, lambda a: depth > 0 or a in ("none", "lit"))
    sub = lambda i: {"ctes": [], "branches": [gen_select(ctx, depth - 1, f"{path}.sub[{i}]", arity=1, no_star=True)], "ops": []}  # noqa: E731
    if k == "none":
        return None
    if k == "lit":
        return ["lit"]
    if k == "in_sub":
        return ["in", sub(0)]
    if k == "exists":
        return ["exists", sub(0)]
    if k == "scalar_cmp":
        return ["cmp", sub(0)]
    if k == "scalar_cmp_both":  # a scalar subquery on either side of the comparison
        return ["cmp2", sub(0), sub(1)]
    return ["and", ["in", sub(0)], ["in", sub(1)]]


def gen_tail(ctx: Ctx, depth: int, path: str):
    k = ctx.alts("tail", path, lambda a: depth > 0 or a != "having_sub")
    if k == "none":
        return None
    if k == "group":
        return "group"
    return {"having": {"ctes": [], "branches": [gen_select(ctx, depth - 1, path + ".sub", arity=1, no_star=True)], "ops": []}}


def gen_select(ctx: Ctx, depth: int, path: str, arity=None, no_star=False):
    frm = gen_from(ctx, depth, path + ".from")
    n = arity if arity is not None else ctx.alts("nitems", path)
    no_star = no_star or (arity is not None and arity > 1)
    items = []
    ctx.prev_alias = None
    for i in range(n):
        it = gen_item(ctx, frm["rels"], depth, f"{path}.item[{i}]", no_star=no_star)
        items.append(it)
        ctx.prev_alias = it["alias"] if it["alias"] and it["e"][0] != "star" else ctx.prev_alias
    ctx.prev_alias = None
    if len(items) > 1 and any(it["e"][0] == "star" for it in items) and arity is not None:
        items = [it for it in items if it["e"][0] != "star"] or items[:1]
    where = gen_pred(ctx, depth, path + ".where")
    tail = gen_tail(ctx, depth, path + ".tail")
    return {"items": items, "from": frm, "where": where, "tail": tail}


def gen_query(ctx: Ctx, depth: int, path: str, kinds_filter=None):
    k = ctx.alts("query", path, kinds_filter)
    if k == "select":
        return {"ctes": [], "branches": [gen_select(ctx, depth, path + ".b[0]")], "ops": []}
    if k in ("union", "union3", "union_paren"):
        b = [gen_select(ctx, depth, path + ".b[0]")]
        star = _has_star(b[0])
        if star:
            # a star fixes nothing positionally; the only well-defined form is `SELECT * FROM <one base table>` in every branch
            f0 = b[0]["from"]
            if f0["shape"] == "one" and f0["rels"][0]["k"] == "base":
                b[0]["items"] = [{"e": ["star", None], "alias": None}]
            else:
                b[0]["items"] = [{"e": gen_colref(ctx, f0["rels"], path + ".b[0].destar"), "alias": None}]
                star = False
        ops = ["UNION ALL"] if k in ("union", "union_paren") else ["UNION", "UNION ALL"]
        ctx.earlier_branch_aliases = [it["alias"] for it in b[0]["items"] if it["alias"]]
        for i in range(1, len(ops) + 1):
            if star:
                nb = {"items": [{"e": ["star", None], "alias": None}],
                      "from": {"shape": "one", "rels": [{"k": "base", "t": T(ctx.base()), "alias": None, "as": False}]}, "where": None, "tail": None}
            else:
                nb = gen_select(ctx, depth, f"{path}.b[{i}]", arity=len(b[0]["items"]), no_star=True)
            b.append(nb)
        ctx.earlier_branch_aliases = None
        q = {"ctes": [], "branches": b, "ops": ops}
        if k == "union_paren":
            q["paren"] = True  # every branch written in parentheses
        return q
    if k == "with_recursive":
        anchor = gen_select(ctx, 0, f"{path}.cte[0]", arity=1, no_star=True)
        name = "cte1"
        rec = {"items": [{"e": ["col", None, out_names({"branches": [anchor]}, ctx.ctes)[0] or "c1"], "alias": None}],
               "from": {"shape": "one", "rels": [{"k": "cte", "name": name, "alias": None, "quoted": False}]}, "where": None, "tail": None}
        body = {"ctes": [], "branches": [anchor, rec], "ops": ["UNION ALL"]}
        ctx.ctes[name] = out_names(body, ctx.ctes)
        main = gen_select(ctx, depth, path + ".b[0]")
        return {"ctes": [{"name": name, "q": body, "recursive": True}], "branches": [main], "ops": []}
    ctes = []
    n = 1 if k == "with" else 2
    for i in range(n):
        body = {"ctes": [], "branches": [gen_select(ctx, max(depth - 1, 0), f"{path}.cte[{i}]")], "ops": []}
        name = f"cte{i + 1}"
        ctes.append({"name": name, "q": body})
        ctx.ctes[name] = out_names(body, ctx.ctes)
    main = gen_select(ctx, depth, path + ".b[0]")
    return {"ctes": ctes, "branches": [main], "ops": []}


def gen_statement(ch, profile, depth=2):
    ctx = Ctx(ch, profile, depth)
    kind = ctx.alts("kinds", "stmt")
    tgt = T("tgt")
    if kind == "insert_dir":
        local = ctx.ch.pick("dir.local", [False, True])
        uri = ctx.ch.pick("dir.path", ["hdfs://out/dir", "/abs/out/dir"])
        fmt = ctx.ch.pick("dir.fmt", [None, "rowformat"])
        return {"kind": "insert_dir", "target": None, "path": uri, "local": local, "fmt": fmt, "q": gen_query(ctx, depth, "q")}
    if kind in ("copy_from", "copy_to", "copy_query_to"):
        t = ctx.ch.pick("copy.target", [T("tgt"), T("tgt", "s1")])
        cols = ctx.ch.pick("copy.cols", [None, ["k1", "k2"]])
        uris = ["s3://bkt/dir/f1.csv", "/abs/dir/f1.csv", "rel/dir/f1.csv"] + ([None] if kind != "copy_from" else [])
        uri = ctx.ch.pick("copy.path", uris)  # None: STDOUT
        opts = ctx.ch.pick("copy.opts", [False, True])
        if kind == "copy_from":
            return {"kind": "copy_from", "target": t, "collist": cols, "path": uri, "opts": opts}
        if kind == "copy_to":
            return {"kind": "copy_to", "target": None, "table": t, "collist": cols, "path": uri, "opts": opts}
        return {"kind": "copy_to", "target": None, "table": None, "q": gen_query(ctx, depth, "q"), "path": uri, "opts": opts}
    if kind in ("insert", "ctas", "view", "bare"):
        q = gen_query(ctx, depth, "q")
        return {"kind": kind, "target": None if kind == "bare" else tgt, "collist": None, "q": q}
    if kind in ("insert_cols", "view_cols"):
        q = gen_query(ctx, depth, "q")
        names = out_names(q, ctx.ctes)
        k = "insert" if kind == "insert_cols" else "view"
        if names is None:
            return {"kind": k, "target": tgt, "collist": None, "q": q}
        return {"kind": k, "target": tgt, "collist": [f"k{i}" for i in range(len(names))], "q": q}
    if kind == "select_into":
        q = gen_query(ctx, depth, "q", lambda a: a in ("select", "with"))
        return {"kind": "select_into", "target": tgt, "collist": None, "q": q}
    if kind == "update_self":  # UPDATE t SET a = b : b is a column of t itself
        return {"kind": "update", "target": tgt, "set": [["k1", ["col", None, "k2"]]], "from": None, "where": gen_pred(ctx, depth, "u.where")}
    if kind in ("update", "update_from"):
        frm = gen_from(ctx, depth, "u.from") if kind == "update_from" else None
        if frm is not None:
            src = gen_colref(ctx, frm["rels"], "u.set")
            setv = [["k1", src]]
        else:
            setv = [["k1", ["lit"]]]
        where = gen_pred(ctx, depth, "u.where")
        return {"kind": "update", "target": tgt, "set": setv, "from": frm, "where": where}
    if kind in ("merge", "merge_derived", "merge_two_inserts"):
        if kind in ("merge", "merge_two_inserts"):
            using = {"k": "base", "t": T(ctx.base()), "alias": ctx.alias(), "as": False}
            names = None
        else:
            q = {"ctes": [], "branches": [gen_select(ctx, depth - 1, "m.sub")], "ops": []}
            using = {"k": "derived", "q": q, "alias": ctx.alias()}
            names = [n for n in (out_names(q, ctx.ctes) or []) if n]
        c1 = names[0] if names else "c1"
        st = {"kind": "merge", "target": tgt, "talias": "tg", "using": using, "key": "id", "update": [["k1", c1]], "insert": [["k1"], [c1]]}
        if kind == "merge_two_inserts":  # two WHEN NOT MATCHED arms with different column lists
            st["insert2"] = [["k2", "k3"], ["c2", "c3"]]
        return st
    if kind == "delete":
        return {"kind": "delete", "target": None, "table": T(ctx.base()), "where": gen_pred(ctx, depth, "d.where")}
    if kind == "truncate":
        return {"kind": "truncate", "target": None, "table": T(ctx.base())}
    raise AssertionError(kind)


# ------------------------------------------------------------------------------------------------
# renderer
# ------------------------------------------------------------------------------------------------
BACKTICK = {"mysql", "sparksql", "hive", "bigquery", "databricks", "clickhouse", "mariadb", "starrocks", "doris", "impala", "athena_hive"}


class R:
    """rendering options: dialect family, renaming of local names (C08), default-schema qualification (C14)"""

    def __init__(self, dialect="ansi", rename=None, qualify=None, as_toggle=False, upper_kw=True):
        self.dialect = dialect
        self.rename = rename or {}
        self.qualify = qualify
        self.as_toggle = as_toggle

    def local(self, name):
        return self.rename.get(name, name) if name else name

    def qualifier(self, q):
        """a column qualifier under the renaming: renamed local name, added alias ('+table' -> alias) or removed alias
        (alias -> '-table')"""
        if q is None:
            return None
        new = self.rename.get(q)
        if new is not None:
            return new[1:] if new.startswith("-") else new
        bare = q.rsplit(".", 1)[-1]
        if "+" + bare in self.rename:
            return self.rename["+" + bare]
        return q

    def table(self, t, quoted=False):
        s = t["s"] if t["s"] is not None else self.qualify
        if quoted == "whole" and s:
            if self.dialect == "bigquery":
                return self.quote(f"{s}.{t['n']}")  # `s1.t1` is the dotted path s1.t1 there (elsewhere it would be one odd identifier)
            return f"{self.quote(s)}.{self.quote(t['n'])}"
        n = self.quote(t["n"]) if quoted else t["n"]
        return f"{s}.{n}" if s else n

    def quote(self, name):
        if self.dialect in BACKTICK:
            return f"`{name}`"
        if self.dialect == "tsql":
            return f"[{name}]"
        return f'"{name}"'


def r_expr(e, o: R):
    k = e[0]
    if k == "col":
        return f"{o.qualifier(e[1])}.{e[2]}" if e[1] else e[2]
    if k == "star":
        return f"{o.qualifier(e[1])}.*" if e[1] else "*"
    if k == "lit":
        return "1"
    if k == "func":
        return "max(" + ", ".join(r_expr(a, o) for a in e[1]) + ")"
    if k == "arith":
        return f"{r_expr(e[1], o)} + {r_expr(e[2], o)}"
    if k == "case":
        return f"CASE WHEN {r_expr(e[1], o)} > 0 THEN {r_expr(e[2], o)} ELSE 0 END"
    if k == "cast":
        return f"CAST({r_expr(e[1], o)} AS int)"
    if k == "pgcast":
        return f"{r_expr(e[1], o)}::int"
    if k == "window":
        order = f" ORDER BY {r_expr(e[3], o)}" if e[3] else ""
        return f"sum({r_expr(e[1], o)}) OVER (PARTITION BY {r_expr(e[2], o)}{order})"
    if k == "coalesce":
        return "coalesce(" + ", ".join(r_expr(a, o) for a in e[1]) + ", 0)"
    if k == "subq":
        return f"({r_query(e[1], o)})"
    if k == "casesubq":
        return f"CASE WHEN {r_expr(e[1], o)} > 0 THEN ({r_query(e[2], o)}) ELSE 0 END"
    raise AssertionError(k)


def r_item(it, o: R):
    s = r_expr(it["e"], o)
    return f"{s} AS {it['alias']}" if it["alias"] else s


def r_rel(r, o: R):
    if r["k"] == "base":
        s = o.table(r["t"], r.get("quoted", False))
        alias = r["alias"]
        use_as = r["as"] != o.as_toggle
        if alias:
            alias = o.local(alias)
            if alias.startswith("-"):
                alias = None  # alias removed: the table is referred to by its own name
        elif "+" + r["t"]["n"] in o.rename:
            alias = o.rename["+" + r["t"]["n"]]  # alias added
            use_as = o.as_toggle
        if alias:
            s += (" AS " if use_as else " ") + alias
        return s
    if r["k"] == "derived":
        return f"({r_query(r['q'], o)}) {o.local(r['alias'])}"
    if r["k"] == "path":
        return f"{r['fmt']}.`{r['uri']}`" + (f" {o.local(r['alias'])}" if r["alias"] else "")
    s = o.local(r["name"])
    if r.get("quoted"):
        s = o.quote(s.lower())  # the CTE is defined unquoted, i.e. lower-case: the quoted reference must spell that
    if r["alias"]:
        s += " " + o.local(r["alias"])
    return s


def r_from(f, o: R):
    rs = [r_rel(r, o) for r in f["rels"]]
    k = f["shape"]
    if k == "one":
        return rs[0]
    if k == "join":
        return f"{rs[0]} JOIN {rs[1]} ON 1 = 1"
    if k == "comma":
        return f"{rs[0]}, {rs[1]}"
    if k == "join3":
        return f"{rs[0]} JOIN {rs[1]} ON 1 = 1 LEFT JOIN {rs[2]} ON 1 = 1"
    if k == "left_using":
        return f"{rs[0]} LEFT JOIN {rs[1]} USING (id)"
    if k == "cross":
        return f"{rs[0]} CROSS JOIN {rs[1]}"
    if k == "join_comma":
        return f"{rs[0]} JOIN {rs[1]} ON 1 = 1, {rs[2]}"
    if k == "comma_join":
        return f"{rs[0]}, {rs[1]} JOIN {rs[2]} ON 1 = 1"
    if k == "nested_paren":
        return f"({rs[0]} JOIN {rs[1]} ON 1 = 1)"
    if k == "paren_join_join":
        return f"({rs[0]} JOIN {rs[1]} ON 1 = 1) JOIN {rs[2]} ON 1 = 1"
    if k == "join_paren_join":
        return f"{rs[0]} JOIN ({rs[1]} JOIN {rs[2]} ON 1 = 1) ON 1 = 1"
    if k == "full_outer":
        return f"{rs[0]} FULL OUTER JOIN {rs[1]} ON 1 = 1"
    raise AssertionError(k)


def r_pred(p, o: R):
    k = p[0]
    if k == "lit":
        return "w1 = 1"
    if k == "in":
        return f"w1 IN ({r_query(p[1], o)})"
    if k == "exists":
        return f"EXISTS ({r_query(p[1], o)})"
    if k == "cmp":
        return f"w1 > ({r_query(p[1], o)})"
    if k == "cmp2":
        return f"({r_query(p[1], o)}) > ({r_query(p[2], o)})"
    if k == "and":
        return f"{r_pred(p[1], o)} AND {r_pred(p[2], o).replace('w1', 'w2', 1)}"
    raise AssertionError(k)


def r_select(s, o: R, into=None):
    sql = "SELECT " + ", ".join(r_item(it, o) for it in s["items"])
    if into:
        sql += f" INTO {into}"
    sql += " FROM " + r_from(s["from"], o)
    if s["where"]:
        sql += " WHERE " + r_pred(s["where"], o)
    if s["tail"] == "group":
        sql += " GROUP BY g1"
    elif s["tail"]:
        sql += f" GROUP BY g1 HAVING count(*) > ({r_query(s['tail']['having'], o)})"
    return sql


def r_query(q, o: R, into=None):
    sql = ""
    if q["ctes"]:
        rec = "RECURSIVE " if any(c.get("recursive") for c in q["ctes"]) and o.dialect not in ("tsql", "oracle") else ""
        sql = "WITH " + rec + ", ".join(f"{o.local(c['name'])} AS ({r_query(c['q'], o)})" for c in q["ctes"]) + " "
    wrap = (lambda t: f"({t})") if q.get("paren") else (lambda t: t)
    parts = [wrap(r_select(q["branches"][0], o, into))]
    for op, b in zip(q["ops"], q["branches"][1:]):
        parts.append(op)
        parts.append(wrap(r_select(b, o)))
    return sql + " ".join(parts)


def render(st, o: R | None = None) -> str:
    o = o or R()
    k = st["kind"]
    tgt = o.table(st["target"]) if st.get("target") else None
    if k == "bare":
        return r_query(st["q"], o)
    if k == "insert_dir":
        fmt = " ROW FORMAT DELIMITED FIELDS TERMINATED BY ','" if st["fmt"] else ""
        return f"INSERT OVERWRITE {'LOCAL ' if st['local'] else ''}DIRECTORY '{st['path']}'{fmt} {r_query(st['q'], o)}"
    if k in ("copy_from", "copy_to"):
        cl = f" ({', '.join(st['collist'])})" if st.get("collist") else ""
        if o.dialect == "redshift":
            opts = " IAM_ROLE 'arn:aws:iam::1:role/r' CSV"
        elif o.dialect == "snowflake":
            opts = " FILE_FORMAT = (TYPE = CSV)"
        else:
            opts = " WITH (FORMAT csv)"
        opts = opts if st["opts"] else ""
        if k == "copy_from":
            return f"COPY {'INTO ' if o.dialect in ('snowflake', 'tsql', 'databricks') else ''}{tgt}{cl} FROM '{st['path']}'{opts}"
        what = f"{o.table(st['table'])}{cl}" if st.get("table") else f"({r_query(st['q'], o)})"
        dest = f"'{st['path']}'" if st["path"] else "STDOUT"
        return f"COPY {what} TO {dest}{opts}"
    if k == "insert":
        cl = f" ({', '.join(st['collist'])})" if st.get("collist") else ""
        return f"INSERT INTO {tgt}{cl} {r_query(st['q'], o)}"
    if k == "ctas":
        return f"CREATE TABLE {tgt} AS {r_query(st['q'], o)}"
    if k == "view":
        cl = f" ({', '.join(st['collist'])})" if st.get("collist") else ""
        return f"CREATE VIEW {tgt}{cl} AS {r_query(st['q'], o)}"
    if k == "select_into":
        return r_query(st["q"], o, into=tgt)
    if k == "update":
        sets = ", ".join(f"{c} = {r_expr(e, o)}" for c, e in st["set"])
        sql = f"UPDATE {tgt} SET {sets}"
        if st["from"]:
            sql += " FROM " + r_from(st["from"], o)
        if st["where"]:
            sql += " WHERE " + r_pred(st["where"], o)
        return sql
    if k == "merge":
        u = st["using"]
        ua = o.qualifier(u["alias"])
        ta = st["talias"]
        src = r_rel(u, o)
        up = ", ".join(f"{ta}.{c} = {ua}.{s}" for c, s in st["update"])
        ic, iv = st["insert"]
        first_cond = f" AND {ua}.flag = 1" if st.get("insert2") else ""
        sql = (
            f"MERGE INTO {tgt} {ta} USING {src} ON {ta}.{st['key']} = {ua}.{st['key']} "
            f"WHEN MATCHED THEN UPDATE SET {up} "
            f"WHEN NOT MATCHED{first_cond} THEN INSERT ({', '.join(ic)}) VALUES ({', '.join(ua + '.' + v for v in iv)})"
        )
        if st.get("insert2"):
            ic2, iv2 = st["insert2"]
            sql += f" WHEN NOT MATCHED THEN INSERT ({', '.join(ic2)}) VALUES ({', '.join(ua + '.' + v for v in iv2)})"
        return sql
    if k == "delete":
        sql = f"DELETE FROM {o.table(st['table'])}"
        if st["where"]:
            sql += " WHERE " + r_pred(st["where"], o)
        return sql
    if k == "truncate":
        return f"TRUNCATE TABLE {o.table(st['table'])}"
    raise AssertionError(k)


# ------------------------------------------------------------------------------------------------
# local names of a statement (C08) and structural walkers
# ------------------------------------------------------------------------------------------------
def walk_queries(node, fn):
    """call fn(query) for every Query in the statement, outermost first"""
    if isinstance(node, dict):
        if "branches" in node and "ctes" in node:
            fn(node)
        for v in node.values():
            walk_queries(v, fn)
    elif isinstance(node, list):
        for v in node:
            walk_queries(v, fn)


def walk_rels(node, fn):
    if isinstance(node, dict):
        if node.get("k") in ("base", "derived", "cte", "path"):
            fn(node)
        for v in node.values():
            walk_rels(v, fn)
    elif isinstance(node, list):
        for v in node:
            walk_rels(v, fn)


def local_names(st):
    """statement-local names in order of first appearance: table aliases, derived-table aliases, CTE names"""
    out = []

    def q(qq):
        for c in qq["ctes"]:
            if c["name"] not in out:
                out.append(c["name"])

    def r(rr):
        if rr.get("alias") and rr["alias"] not in out:
            out.append(rr["alias"])

    walk_queries(st, q)
    walk_rels(st, r)
    return out


def base_tables(st):
    out = []

    def r(rr):
        if rr["k"] == "base":
            out.append(rr["t"])

    walk_rels(st, r)
    return out


def features(st):
    """coarse structural features of a statement, used for non-triviality counts and finding classification"""
    f = set()
    f.add("kind:" + st["kind"])

    def q(qq):
        if qq["ctes"]:
            f.add("cte")
        if len(qq["branches"]) > 1:
            f.add("setop")
        for s in qq["branches"]:
            f.add("from:" + s["from"]["shape"])
            if s["where"]:
                f.add("where:" + s["where"][0])
            if s["tail"]:
                f.add("tail:" + ("group" if s["tail"] == "group" else "having"))
            for it in s["items"]:
                f.add("item:" + it["e"][0])

    def r(rr):
        f.add("rel:" + rr["k"])

    walk_queries(st, q)
    walk_rels(st, r)
    if st.get("from"):
        f.add("from:" + st["from"]["shape"])

    def pred(p):
        if p:
            f.add("where:" + p[0])
            if p[0] == "and":
                pred(p[1])
                pred(p[2])

    pred(st.get("where"))
    return f


def selftest():
    from vmc import explorer

    n = 0
    texts = set()
    for ch, st in explorer.explore(lambda c: gen_statement(c, TABLE_PROFILE, 2), 1):
        sql = render(st)
        texts.add(sql)
        n += 1
        assert sql and "None" not in sql, sql
    assert n == len(texts), (n, len(texts))
    _, st0 = explorer.replay(lambda c: gen_statement(c, TABLE_PROFILE, 2), [])
    assert render(st0) == "INSERT INTO tgt SELECT c1 FROM t1", render(st0)
    for ch, st in explorer.explore(lambda c: gen_statement(c, COLUMN_PROFILE, 2), 1):
        render(st)
