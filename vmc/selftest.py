"""setup / self-test: nothing is built (pure Python); this proves the machinery can run offline on this tree.

* imports sqllineage from the repository under test,
* runs the unit self-tests of the engines (explorer, reference semantics, scheduler, ...),
* validates a synthetic evidence file produced by the real writer against the evidence schema.
"""
from __future__ import annotations

import importlib
import json
import os
import subprocess
import sys

from vmc import common


def run() -> int:
    ok = True
    import sqllineage

    src = os.path.dirname(sqllineage.__file__)
    print(f"selftest: sqllineage imported from {src}")
    if not src.startswith(common.REPO):
        print("selftest: FAIL sqllineage not imported from the repository under test")
        ok = False
    for name in ("explorer", "bfs", "sched", "hashctl", "sqlgen", "refsem"):
        try:
            mod = importlib.import_module("vmc." + name)
        except ModuleNotFoundError:
            continue
        st = getattr(mod, "selftest", None)
        if st:
            try:
                st()
                print(f"selftest: {name} ok")
            except Exception as e:  # noqa
                import traceback

                traceback.print_exc()
                print(f"selftest: FAIL {name}: {e}")
                ok = False
    # evidence writer vs schema
    rep = common.Report("C00", "quick", "exploration")
    rep.coverage.update(evaluations=3, distinct_nontrivial=2, rule="synthetic", samples=[{"x": 1}])
    saved = common.EVIDENCE_DIR
    common.EVIDENCE_DIR = os.getcwd()
    try:
        rep.finish()
    finally:
        common.EVIDENCE_DIR = saved
    schema = "/root/.vp/EVIDENCE.schema.json"
    if os.path.exists(schema):
        r = subprocess.run(
            ["python3-vt", "-c",
             "import json,jsonschema,sys; jsonschema.validate(json.load(open(sys.argv[1])), json.load(open(sys.argv[2]))); print('evidence writer output validates')",
             os.path.join(os.getcwd(), "C00.json"), schema],
            capture_output=True, text=True,
        )
        print("selftest:", (r.stdout.strip() or r.stderr.strip()[-400:]))
        ok = ok and r.returncode == 0
    print("selftest:", "OK" if ok else "FAILED")
    return 0 if ok else 2
