"""E1 - iterative deviation-bounded choice explorer (stateless).

A generator is an ordinary function gen(ch) that builds one case by calling ch.choose(label, n) (or
ch.pick(label, alternatives)); alternative 0 is the default (simplest) one. explore(gen, D) runs gen for every
choice sequence with at most D non-default choices: replay a prefix (an out-of-range replayed choice is a hard
error), take 0 at every later point, then for every later point and every non-default alternative recurse with
prefix + [alt] while the number of deviations stays <= D. Nothing is sampled.
"""
from __future__ import annotations

from vmc.common import HarnessError


class Chooser:
    __slots__ = ("prefix", "i", "trace", "arity", "labels")

    def __init__(self, prefix):
        self.prefix = list(prefix)
        self.i = 0
        self.trace: list[int] = []
        self.arity: list[int] = []
        self.labels: list[str] = []

    def choose(self, label: str, n: int) -> int:
        c = self.prefix[self.i] if self.i < len(self.prefix) else 0
        if c >= n:
            raise HarnessError(f"replay divergence at {label}: choice {c} of {n}")
        self.i += 1
        self.trace.append(c)
        self.arity.append(n)
        self.labels.append(label)
        return c

    def pick(self, label: str, alternatives):
        return alternatives[self.choose(label, len(alternatives))]

    def deviations(self):
        return [(self.labels[i], c) for i, c in enumerate(self.trace) if c]


def explore(gen, bound: int):
    """yield (chooser, case) for every choice sequence with <= bound deviations (each exactly once)"""
    stack = [[]]
    while stack:
        prefix = stack.pop()
        ch = Chooser(prefix)
        case = gen(ch)
        if ch.trace[: len(prefix)] != prefix:
            raise HarnessError("replayed prefix diverged")
        yield ch, case
        dev = sum(1 for c in prefix if c)
        if dev >= bound:
            continue
        for i in range(len(prefix), len(ch.trace)):
            for alt in range(1, ch.arity[i]):
                stack.append(ch.trace[:i] + [alt])


def replay(gen, trace):
    ch = Chooser(trace)
    case = gen(ch)
    return ch, case


def selftest():
    # a generator with 3 binary points and one ternary point: sizes of the deviation balls are known
    def gen(ch):
        a = ch.choose("a", 2)
        b = ch.choose("b", 3) if a else 0
        c = ch.choose("c", 2)
        return (a, b, c)

    got0 = {case for _, case in explore(gen, 0)}
    got1 = {case for _, case in explore(gen, 1)}
    got3 = [case for _, case in explore(gen, 3)]
    assert got0 == {(0, 0, 0)}
    assert got1 == {(0, 0, 0), (1, 0, 0), (0, 0, 1)}
    assert len(got3) == len(set(got3)) == 2 + 6  # a=0: c in 2; a=1: b in 3 x c in 2
    ch, case = replay(gen, [1, 2, 1])
    assert case == (1, 2, 1) and ch.deviations() == [("a", 1), ("b", 2), ("c", 1)]
    try:
        replay(gen, [0, 5])
        raise AssertionError("out-of-range replay accepted")
    except HarnessError:
        pass
