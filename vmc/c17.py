"""C17 - the visualisation server only discloses files under its roots.

Exhaustive enumeration of request paths (segments x anchors x leaves x routes x root settings) against a
scratch tree with marker files; the oracle is stated on what the response *discloses* (DESIGN.md section 5,
C17): no OUT marker in any body, every 200 listing is a listing of a directory inside the root, every
200 content response is for a path inside the root.
"""
from __future__ import annotations

import io
import itertools
import json
import os

from vmc import common
from vmc.common import Report, pmap

SEGS = ["..", ".", "child", "child/nested", "../root_sibling", "../outside", "in.sql", ""]
GET_SEGS = ["..", ".", "sub", "index.html", "../static_sibling", "", "static_sibling", "..."]
ROOT_MODES = ["env-before-import", "root_path-absolute", "root_path-relative"]
IN_MARK, OUT_MARK = "MARK_IN", "MARK_OUT"

TREE = {
    "top.sql": OUT_MARK,
    "root/in.sql": IN_MARK,
    "root/child/c.sql": IN_MARK,
    "root/child/nested/n.sql": IN_MARK,
    "root_sibling/s.sql": OUT_MARK,
    "root_sibling/child/sc.sql": OUT_MARK,
    "outside/o.sql": OUT_MARK,
    "outside/child/nested/on.sql": OUT_MARK,
    "static/index.html": IN_MARK,
    "static/sub/a.js": IN_MARK,
    "static_sibling/x.js": OUT_MARK,
    "static_sibling/sub/y.js": OUT_MARK,
}


def marker_of(rel: str) -> str:
    """unique per file, so 'outside' can be judged relative to whatever root is current"""
    return f"{TREE[rel]}_{rel.replace('/', '_').replace('.', '_')}_END"


def build_tree(base: str) -> None:
    for rel in TREE:
        p = os.path.join(base, rel)
        os.makedirs(os.path.dirname(p), exist_ok=True)
        with open(p, "w") as f:
            f.write(f"select * from {marker_of(rel)}")


def make_base() -> str:
    """the tree lives 7 levels below the scratch directory so that no enumerated '..' walk leaves the scratch"""
    base = os.path.join(os.path.realpath(os.getcwd()), *[f"l{i}" for i in range(1, 8)], "vmc_base")
    os.makedirs(base)
    BASE["dir"] = base
    build_tree(base)
    return base


def contained(base: str, root_rel: str, p: str) -> bool:
    """reference containment: lexical resolution of '.' and '..', component-wise prefix"""
    root = os.path.normpath(os.path.join(base, root_rel))
    real = os.path.normpath(os.path.join(base, p))
    return real == root or real.startswith(root + os.sep)


# ----------------------------------------------------------------------------------------------
def gen_paths(base: str, depth: int):
    """all (anchor, rel) spellings: every sequence of 1..depth segments, plus every file that really
    exists in the directory the sequence lexically resolves to (so content routes always have a target)"""
    out = []
    anchors = [("abs-root", os.path.join(base, "root") + "/"), ("rel-root", "root/"), ("fs-root", "/"), ("cwd", "")]
    for L in range(0, depth + 1):
        for combo in itertools.product(SEGS, repeat=L):
            rel = "/".join(combo)
            for aname, a in anchors:
                p = a + rel
                if p == "":
                    continue
                leaves = [None]
                d = os.path.normpath(os.path.join(base, p))
                if os.path.isdir(d):
                    leaves += sorted(e for e in os.listdir(d) if os.path.isfile(os.path.join(d, e)))
                for leaf in leaves:
                    out.append((aname, p if leaf is None else p.rstrip("/") + "/" + leaf if p != "/" else "/" + leaf))
    return out


def gen_requests(base: str, depth: int):
    reqs = []
    paths = gen_paths(base, depth)
    inside_file = os.path.join(base, "root", "in.sql")
    inside_dir = os.path.join(base, "root", "child")
    for mode in ROOT_MODES:
        for aname, p in paths:
            reqs.append((mode, "POST", "/script", {"f": p}))
            reqs.append((mode, "POST", "/lineage", {"f": p}))
            reqs.append((mode, "POST", "/directory", {"f": p}))
            reqs.append((mode, "POST", "/directory", {"d": p}))
            # the other parameter legitimate: the check must look at both
            reqs.append((mode, "POST", "/directory", {"d": p, "f": ""}))
            reqs.append((mode, "POST", "/directory", {"d": inside_dir, "f": p}))
            reqs.append((mode, "POST", "/script", {"f": p, "d": inside_dir}))
            reqs.append((mode, "POST", "/lineage", {"f": p, "e": "select 1"}))
        # payload shapes that are not paths at all
        for route in ("/script", "/lineage", "/directory"):
            for payload in ({}, {"f": None}, {"d": None}, {"f": 5}, {"f": ["x"]}, {"f": {"a": 1}}, {"e": "select * from t"}):
                reqs.append((mode, "POST", route, payload))
        # GET over the static folder
        for L in range(0, depth + 1):
            for combo in itertools.product(GET_SEGS, repeat=L):
                rel = "/".join(combo)
                for prefix in ("/", "//", "", base + "/static/", "/" + base + "/static/", base + "/", "/" + base + "/"):
                    for leaf in ("", "/index.html", "/a.js", "/x.js", "/y.js"):
                        reqs.append((mode, "GET", prefix + rel + leaf, None))
        for route in ("/script", "/lineage", "/directory"):
            for method in ("GET", "OPTIONS", "PUT", "DELETE"):
                reqs.append((mode, method, route, None))
    return reqs


# ----------------------------------------------------------------------------------------------
_STATE = {"mode": None}
BASE = {"dir": None}


def _setup_mode(mode: str):
    import importlib

    base = BASE["dir"]
    if _STATE["mode"] == mode:
        return _STATE["D"]
    os.chdir(base)
    if mode == "env-before-import":
        os.environ["SQLLINEAGE_DIRECTORY"] = os.path.join(base, "root")
    else:
        os.environ.pop("SQLLINEAGE_DIRECTORY", None)
    import sqllineage.drawing as D

    D = importlib.reload(D)
    D.STATIC_FOLDER = os.path.join(base, "static")
    from pathlib import Path

    if mode == "root_path-absolute":
        D.app.root_path = Path(os.path.join(base, "root", "in.sql")).parent  # as draw_lineage_graph(f=...) does
    elif mode == "root_path-relative":
        D.app.root_path = Path("root/in.sql").parent
    _STATE["mode"], _STATE["D"] = mode, D
    return D


def do_request(D, method, path, payload):
    st = {}
    env = {"REQUEST_METHOD": method, "PATH_INFO": path}
    if payload is not None:
        b = json.dumps(payload).encode()
        env["CONTENT_LENGTH"] = str(len(b))
        env["wsgi.input"] = io.BytesIO(b)
    elif method == "POST":
        env["CONTENT_LENGTH"] = "2"
        env["wsgi.input"] = io.BytesIO(b"{}")
    try:
        out = D.app(env, lambda s, h: st.__setitem__("s", s))
        return st.get("s", "???")[:3], b"".join(out).decode("utf-8", "replace")
    except BaseException as e:  # noqa - an escaping exception discloses nothing; it is counted
        return "EXC:" + type(e).__name__, ""


def judge(base: str, method: str, path: str, payload, status: str, body: str, root_rel: str = "root"):
    """-> list of violation kinds for one response (oracle on disclosure)"""
    bad = []
    allowed_root = "static" if method == "GET" else root_rel
    low = body.lower()
    for rel in TREE:
        if not contained(base, allowed_root, rel) and marker_of(rel).lower() in low:
            bad.append("content-of-outside-file-disclosed")
            break
    if status != "200":
        return bad
    if method == "GET":
        # whatever file was served, the only legitimate reading of the request is <static>/<path without leading slashes>
        served = os.path.join("static", path.strip("/"))
        if not contained(base, "static", served):
            bad.append("GET-200-outside-static-folder")
        elif "mark_" not in low:
            bad.append("GET-200-but-not-the-static-file")
        return bad
    if method != "POST" or not isinstance(payload, dict):
        return bad
    if path in ("/script", "/lineage"):
        f = payload.get("f")
        if isinstance(f, str) and f and not contained(base, root_rel, f):
            bad.append("content-route-200-for-path-outside-root")
    elif path == "/directory":
        try:
            data = json.loads(body)
        except ValueError:
            return bad + ["unparsable-200-body"]
        if not (payload.get("f") or payload.get("d")):
            return bad  # lists the configured default DIRECTORY: allowed by definition
        ids = [data.get("id", "")] + [c.get("id", "") for c in data.get("children", [])]
        if not all(contained(base, root_rel, i) for i in ids):
            bad.append("listing-of-directory-outside-root")
    return bad


def _work(chunk):
    mode, items = chunk
    D = _setup_mode(mode)
    base = BASE["dir"]
    res = []
    for (method, path, payload) in items:
        status, body = do_request(D, method, path, payload)
        bad = judge(base, method, path, payload, status, body)
        disclosed = status == "200" and ("mark_" in body.lower() or '"children"' in body)
        res.append((status, bad, disclosed))
    return res


ROOTS = ["root", "root/child", "root_sibling"]


def _root_history(task):
    """one app object, a sequence of root settings (as draw_lineage_graph(f=...) assigns them), a request battery
    after each setting; containment is judged against the *current* root"""
    seq, battery = task
    from pathlib import Path

    D = _setup_mode("root_path-absolute")
    base = BASE["dir"]
    bad = []
    n = served = 0
    for step, r in enumerate(seq):
        D.app.root_path = Path(os.path.join(base, r, "x.sql")).parent
        for (method, path, payload) in battery:
            status, body = do_request(D, method, path, payload)
            n += 1
            served += status == "200"
            for kind in judge(base, method, path, payload, status, body, root_rel=r):
                bad.append((kind, step, method, path, payload, status))
    _STATE["mode"] = None  # the app object is dirty now; the next task reloads it
    return n, served, bad[:5]


def root_histories(rep: Report, base: str, max_len: int, depth: int):
    battery = []
    for aname, p in gen_paths(base, depth):
        battery.append(("POST", "/script", {"f": p}))
        battery.append(("POST", "/directory", {"d": p}))
        battery.append(("POST", "/directory", {"f": p}))
    tasks = []
    for L in range(2, max_len + 1):
        for seq in itertools.product(ROOTS, repeat=L):
            if all(a != b for a, b in zip(seq, seq[1:])):
                tasks.append((seq, battery))
    res = pmap(_root_history, tasks, chunk=1)
    n = served = 0
    for (seq, _), (k, sv, bad) in zip(tasks, res):
        n += k
        served += sv
        for kind, step, method, path, payload, status in bad:
            rep.violation("after-root-change-" + kind, {"root_sequence": list(seq), "step": step, "method": method, "path": path, "payload": payload}, {"status": status})
    return {"root_sequences": len(tasks), "requests": n, "served_200": served, "max_len": max_len, "battery_segments": depth}


def run(tier: str, opts: dict) -> int:
    rep = Report("C17", tier, "exploration")
    depth = int(opts.get("depth", 3 if tier == "quick" else 5))
    base = make_base()
    reqs = gen_requests(base, depth)
    by_mode: dict[str, list] = {}
    for mode, method, path, payload in reqs:
        by_mode.setdefault(mode, []).append((method, path, payload))
    chunks = []
    for mode, items in by_mode.items():
        for i in range(0, len(items), 4000):
            chunks.append((mode, items[i : i + 4000]))
    results = pmap(_work, chunks, chunk=1)
    statuses: dict[str, int] = {}
    n = 0
    nontrivial = set()
    served_ok = 0
    for (mode, items), res in zip(chunks, results):
        for (method, path, payload), (status, bad, disclosed) in zip(items, res):
            n += 1
            statuses[status] = statuses.get(status, 0) + 1
            case = {"root_mode": mode, "method": method, "path": path, "payload": payload}
            key = json.dumps([method, path, payload], sort_keys=True)
            tgt = path if method == "GET" else json.dumps(payload)
            if ".." in tgt or "sibling" in tgt or "outside" in tgt:
                nontrivial.add(key)
            served_ok += disclosed
            for kind in bad:
                rep.violation(kind, case, {"status": status})
            if n % 50021 == 1:
                rep.sample({**case, "status": status})
    hist = root_histories(rep, base, 2 if tier == "quick" else 3, 1 if tier == "quick" else 2)
    n += hist["requests"]
    rep.coverage.update(
        root_change_histories=hist,
        evaluations=n,
        distinct_nontrivial=len(nontrivial),
        rule=f"every path of 0..{depth} segments over {SEGS} x 4 anchors x every file really present in the "
        f"lexically resolved directory x 8 POST payload shapes x 3 root settings, GET paths over {GET_SEGS}; "
        "non-trivial = distinct (method, path, payload) whose spelling contains '..', the sibling or the outside directory",
        exhaustive=True,
        bound_completed={"segments": depth},
        status_histogram=statuses,
        responses_200_disclosing_inside_content=served_ok,
        root_modes=ROOT_MODES,
    )
    rep.assumptions += [
        "no symbolic links, percent-encoding or non-UTF-8 bytes in the path alphabet",
        "WSGI callable driven directly; wsgiref's own request parsing is outside the check",
        "reference containment = lexical resolution of . and .. (os.path.normpath), component-wise prefix",
    ]
    if served_ok == 0:
        raise common.HarnessError("vacuous: no request was served inside the root")
    return rep.finish()


def replay(body: dict, opts: dict) -> int:
    base = make_base()
    c = body["case"]
    D = _setup_mode(c["root_mode"])
    # a replay file stores paths of the scratch tree it was found in; re-anchor absolute ones
    def fix(p):
        if isinstance(p, str) and "/vmc_base" in p:
            tail = p.split("/vmc_base", 1)[1]
            return os.path.join(base, tail.split("/", 1)[1] if "/" in tail else "")
        return p

    payload = {k: fix(v) for k, v in c["payload"].items()} if isinstance(c["payload"], dict) else c["payload"]
    status, text = do_request(D, c["method"], c["path"], payload)
    bad = judge(base, c["method"], c["path"], payload, status, text)
    print(f"request {c['method']} {c['path']} {payload} -> {status} {text[:200]!r}")
    if bad:
        print(f"VIOLATION property=C17 replay={opts.get('path', '<replayed>')} kinds={bad}")
        return 1
    print("OK (no disclosure on replay)")
    return 0
