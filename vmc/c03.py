"""C03 - script summary roles follow from per-statement reads and writes.

(a) E2 explicit-state BFS: alphabet = every (read-set, at most one write) over a small table universe + DROP t +
    RENAME x TO y; every transition calls the real `SQLLineageHolder.of` on holders the real analyzer produced
    once per letter; a reference state written from the property text is stepped in lock-step and compared in
    every state (roles of every table the text constrains + table edges).
(b) pipeline conformance: every history up to a depth is rendered to a real script and run through
    `LineageRunner` (this is where statement splitting, the analyzer and anything the runner keeps between
    statements take part); the summary must equal the reference's.

Where the text is silent (RENAME of a table carrying a source-only / target-only / self-loop mark, RENAME onto
a table that already exists) the affected tables are marked unconstrained ("tainted") and only "x is gone"
and the roles of the other tables are compared.
"""
from __future__ import annotations

import collections
import itertools
import json
import time

from vmc import common
from vmc.common import HarnessError, Report, pmap

FQ = "<default>."


def alphabet(tables):
    letters = []
    for r in range(0, len(tables) + 1):
        for reads in itertools.combinations(tables, r):
            for w in [None] + list(tables):
                if not reads and w is None:
                    continue
                letters.append(("rw", reads, w))
    for t in tables:
        letters.append(("drop", t))
    for x, y in itertools.permutations(tables, 2):
        letters.append(("ren", x, y))
    return letters


def render(letter, style: str, dialect: str = "ansi") -> str:
    item = "1" if style == "lit" else "*"
    if letter[0] == "rw":
        _, reads, w = letter
        if reads and w:
            return f"INSERT INTO {w} SELECT {item} FROM {', '.join(reads)}"
        if reads:
            return f"SELECT {item} FROM {', '.join(reads)}"
        if style == "ddl":
            return f"CREATE TABLE {w} (c1 int)"  # a write that wires a column to the table but no table edge
        return f"INSERT INTO {w} VALUES (1)"
    if letter[0] == "drop":
        return f"DROP TABLE {letter[1]}"
    if dialect == "mysql":
        return f"RENAME TABLE {letter[1]} TO {letter[2]}"
    return f"ALTER TABLE {letter[1]} RENAME TO {letter[2]}"


# ----------------------------------------------------------------------------------------------
# reference model (from the property text)
# ----------------------------------------------------------------------------------------------
class Ref:
    __slots__ = ("N", "E", "S", "G", "R", "W", "taint", "style")

    def __init__(self):
        self.N = set()  # tables present
        self.E = set()  # edges r -> w
        self.S = set()  # read by a statement that writes nothing
        self.G = set()  # written by a statement that reads nothing
        self.R = set()  # ever read from (keeps DROP away)
        self.W = set()  # something (a column) is wired to it although it has no table edge
        self.taint = set()  # tables whose roles the text leaves open
        self.style = None

    def key(self):
        return json.dumps([sorted(self.N), sorted(self.E), sorted(self.S), sorted(self.G), sorted(self.R), sorted(self.W), sorted(self.taint)])

    def nbrs(self, t):
        return {a for a, b in self.E if b == t} | {b for a, b in self.E if a == t}

    def step(self, ev):
        if ev[0] == "rw":
            _, reads, w = ev
            self.N |= set(reads)
            self.R |= set(reads)
            if w:
                self.N.add(w)
            if reads and not w:
                self.S |= set(reads)
            elif w and not reads:
                self.G.add(w)
                if self.style == "ddl":
                    self.W.add(w)
            else:
                for r in reads:
                    self.E.add((r, w))
        elif ev[0] == "drop":
            t = ev[1]
            wired = t in self.R or t in self.W or any(t in e for e in self.E)
            if not wired:
                # nothing was ever read from it or wired to it: DROP removes it; other tables untouched
                self.N.discard(t)
                self.S.discard(t)
                self.G.discard(t)
        else:
            _, x, y = ev
            clean = (
                x in self.N
                and x not in self.S
                and x not in self.G
                and (x, x) not in self.E
                and any(x in e for e in self.E)
                and y not in self.N
                and x not in self.taint
            )
            if not clean:
                # the text is silent: y, and every table whose role depends on an edge of x or y, is unconstrained
                self.taint |= {y} | self.nbrs(x) | self.nbrs(y)
                self.taint.discard(x)
            # nominal continuation: y takes x's place (what the text says for the clean case)
            self.E = {(y if a == x else a, y if b == x else b) for a, b in self.E}
            self.E.discard((y, y))
            for tag in (self.S, self.G, self.R, self.W):
                if x in tag:
                    tag.discard(x)
                    tag.add(y)
            self.N.discard(x)
            self.N.add(y)
            if not (any(y in e for e in self.E) or y in self.R or y in self.S or y in self.G or y in self.W):
                self.N.discard(y)
            if x in self.taint:
                self.taint.discard(x)

    def roles(self):
        indeg = collections.Counter(b for a, b in self.E)
        outdeg = collections.Counter(a for a, b in self.E)
        loops = {a for a, b in self.E if a == b}
        src = {t for t in self.N if indeg[t] == 0 and outdeg[t] > 0} | loops | (self.S & self.N)
        tgt = {t for t in self.N if outdeg[t] == 0 and indeg[t] > 0} | loops | (self.G & self.N)
        mid = {t for t in self.N if indeg[t] > 0 and outdeg[t] > 0} - loops
        return src, tgt, mid


def ref_of(hist, style=None):
    r = Ref()
    r.style = style
    for ev in hist:
        r.step(ev)
    return r


def compare(ref: Ref, obs, universe, last_event=None):
    """obs = (src, tgt, mid, edges) as sets of bare table names / pairs; -> list of discrepancies"""
    src, tgt, mid, edges = obs
    rs, rt, rm = ref.roles()
    bad = []
    for t in universe:
        if t in ref.taint:
            continue
        for name, got, exp in (("source", src, rs), ("target", tgt, rt), ("intermediate", mid, rm)):
            if (t in got) != (t in exp):
                bad.append(f"{t}: {name} {'reported' if t in got else 'missing'}")
    if edges is not None:
        ge = {e for e in edges if e[0] not in ref.taint and e[1] not in ref.taint}
        re_ = {e for e in ref.E if e[0] not in ref.taint and e[1] not in ref.taint}
        if ge != re_:
            bad.append(f"edges: got {sorted(ge)} expected {sorted(re_)}")
    if last_event and last_event[0] == "ren":
        x = last_event[1]
        if x in src | tgt | mid or (edges is not None and any(x in e for e in edges)):
            bad.append(f"{x}: still present after RENAME {x} TO {last_event[2]}")
    return bad


# ----------------------------------------------------------------------------------------------
# implementation side
# ----------------------------------------------------------------------------------------------
_H = {}


def holders_for(tables, style):
    key = (tuple(tables), style)
    if key not in _H:
        from sqllineage.core.metadata.dummy import DummyMetaDataProvider
        from sqllineage.core.parser.sqlfluff.analyzer import SqlFluffLineageAnalyzer

        prov = DummyMetaDataProvider()
        an = SqlFluffLineageAnalyzer(".", "ansi")
        _H[key] = (prov, {ev: an.analyze(render(ev, style), prov) for ev in alphabet(tables)})
    return _H[key]


def bare(t) -> str:
    s = str(t)
    return s[len(FQ):] if s.startswith(FQ) else s


def impl_obs(tables, style, hist):
    from sqllineage.core.holders import SQLLineageHolder

    prov, hs = holders_for(tables, style)
    h = SQLLineageHolder.of(prov, *[hs[e] for e in hist])
    g = h.table_lineage_graph
    return (
        {bare(t) for t in h.source_tables},
        {bare(t) for t in h.target_tables},
        {bare(t) for t in h.intermediate_tables},
        {(bare(a), bare(b)) for a, b in g.edges},
        h,
    )


def impl_canon(h):
    """table-level projection of the folded graph (DESIGN.md C03: equal projections have equal futures)"""
    from sqllineage.core.holders import DATASET_CLASSES
    from sqllineage.utils.constant import NodeTag

    g = h.graph
    out = []
    for n, attr in g.nodes(data=True):
        if not isinstance(n, DATASET_CLASSES):
            continue
        succ = sorted(bare(m) for m in g.successors(n) if isinstance(m, DATASET_CLASSES))
        pred = sorted(bare(m) for m in g.predecessors(n) if isinstance(m, DATASET_CLASSES))
        other = any(not isinstance(m, DATASET_CLASSES) for m in itertools.chain(g.successors(n), g.predecessors(n)))
        out.append((bare(n), bool(attr.get(NodeTag.SOURCE_ONLY)), bool(attr.get(NodeTag.TARGET_ONLY)), succ, pred, other))
    return json.dumps(sorted(out))


def _expand(task):
    """expand one frontier state: all letters; returns successors and discrepancies"""
    tables, style, hist = task
    hist = [tuple(tuple(x) if isinstance(x, list) else x for x in ev) for ev in hist]
    out = []
    for ev in alphabet(tables):
        h2 = hist + [ev]
        ref = ref_of(h2, style)
        try:
            s, t, m, e, h = impl_obs(tables, style, h2)
        except Exception as ex:  # noqa
            out.append((ev, None, [f"exception {type(ex).__name__}: {str(ex)[:100]}"], False))
            continue
        bad = compare(ref, (s, t, m, e), tables, ev)
        out.append((ev, impl_canon(h) + "|" + ref.key(), bad, bool(ref.taint)))
    return out


def bfs(rep: Report, tables, style, max_depth, deadline, label):
    t0 = time.time()
    seen = {"": []}
    frontier = [[]]
    transitions = 0
    depth = 0
    complete_depth = 0
    fixpoint = False
    tainted_states = 0
    samples = []
    first_bad = {}
    while frontier and depth < max_depth:
        if time.time() > deadline:
            rep.cap(f"{label}: time cap before depth {depth + 1}")
            break
        res = pmap(_expand, [(tables, style, h) for h in frontier], chunk=max(1, len(frontier) // 64))
        nxt = []
        for hist, outs in zip(frontier, res):
            for ev, canon, bad, tainted in outs:
                transitions += 1
                h2 = hist + [ev]
                if bad:
                    sig = (ev[0], bad[0].split(":")[0] if ":" in bad[0] else bad[0][:30])
                    if sig not in first_bad:
                        first_bad[sig] = True
                        rep.violation(
                            "fold-disagrees-with-reference",
                            {"part": "a", "tables": list(tables), "style": style, "history": [list(x) for x in h2],
                             "script": "; ".join(render(e, style) for e in h2)},
                            bad[:4],
                        )
                    continue
                if canon not in seen:
                    seen[canon] = h2
                    nxt.append(h2)
                    tainted_states += tainted
                    if len(h2) == 3 and len(samples) < 2:
                        samples.append("; ".join(render(e, style) for e in h2))
        depth += 1
        complete_depth = depth
        frontier = nxt
        if not frontier:
            fixpoint = True
    return {
        "label": label,
        "tables": list(tables),
        "letters": len(alphabet(tables)),
        "style": style,
        "states": len(seen),
        "transitions": transitions,
        "depth_completed": complete_depth,
        "fixpoint": fixpoint,
        "states_with_unconstrained_tables": tainted_states,
        "samples": samples,
        "wall_s": round(time.time() - t0, 1),
    }


# ----------------------------------------------------------------------------------------------
# (b) pipeline conformance
# ----------------------------------------------------------------------------------------------
def _pipeline(task):
    tables, style, dialect, hist = task[:4]
    term = task[4] if len(task) > 4 else ""
    from sqllineage.runner import LineageRunner

    hist = [tuple(ev) for ev in hist]
    # term ";": every statement, the last one too, ends with a semicolon - a repeated statement is then repeated character by character
    script = ";\n".join(render(ev, style, dialect) for ev in hist) + term
    ref = ref_of(hist, style)
    try:
        r = LineageRunner(script, dialect=dialect)
        s = {bare(t) for t in r.source_tables}
        t = {bare(t) for t in r.target_tables}
        m = {bare(t) for t in r.intermediate_tables}
        cy = r.to_cytoscape()
        edges = {(bare(d["data"]["source"]), bare(d["data"]["target"])) for d in cy if "source" in d["data"]}
        n_stmt = len(r.statements())
    except Exception as ex:  # noqa
        return [f"exception {type(ex).__name__}: {str(ex)[:120]}"], script
    bad = compare(ref, (s, t, m, edges), tables, hist[-1] if hist else None)
    if n_stmt != len(hist):
        bad.append(f"{n_stmt} statements reported for {len(hist)}")
    return bad, script


def pipeline(rep: Report, plan, deadline):
    """plan: list of (tables, style, dialect, depth[, terminator of the last statement])"""
    t0 = time.time()
    total = 0
    parts = []
    first_bad = set()
    for tables, style, dialect, depth, *rest in plan:
        term = rest[0] if rest else ""
        if time.time() > deadline:
            rep.cap(f"pipeline conformance: time cap before {tables}/{style}/{dialect}/depth {depth}")
            break
        letters = alphabet(tables)
        tasks = []
        for d in range(1, depth + 1):
            for hist in itertools.product(letters, repeat=d):
                tasks.append((tables, style, dialect, [list(ev) for ev in hist], term))
        res = pmap(_pipeline, tasks, chunk=64)
        total += len(tasks)
        for task, (bad, script) in zip(tasks, res):
            if bad:
                sig = (bad[0].split(":")[0], task[3][-1][0], dialect)
                if sig in first_bad:
                    continue
                first_bad.add(sig)
                rep.violation(
                    "pipeline-disagrees-with-reference",
                    {"part": "b", "tables": list(tables), "style": style, "dialect": dialect, "history": task[3], "term": term, "script": script},
                    bad[:4],
                )
        parts.append({"tables": list(tables), "style": style, "dialect": dialect, "depth": depth, "last_statement_terminated": bool(term), "scripts": len(tasks)})
    return {"scripts": total, "parts": parts, "wall_s": round(time.time() - t0, 1)}


# ----------------------------------------------------------------------------------------------
# (c) multi-pair RENAME TABLE (mysql): pairs are executed from left to right
# ----------------------------------------------------------------------------------------------
def _multi_rename(task):
    base, pairs, dialect = task
    from sqllineage.runner import LineageRunner

    hist = [tuple(ev) for ev in base]
    stmts = [render(ev, "star", dialect) for ev in hist]
    stmts.append("RENAME TABLE " + ", ".join(f"{x} TO {y}" for x, y in pairs))
    script = ";\n".join(stmts)
    ref = ref_of(hist, "star")
    for x, y in pairs:
        ref.step(("ren", x, y))
    universe = ("a", "b", "c", "t", "s1", "s2")
    try:
        r = LineageRunner(script, dialect=dialect)
        s = {bare(t) for t in r.source_tables}
        t = {bare(t) for t in r.target_tables}
        m = {bare(t) for t in r.intermediate_tables}
        edges = {(bare(d["data"]["source"]), bare(d["data"]["target"])) for d in r.to_cytoscape() if "source" in d["data"]}
    except Exception as ex:  # noqa
        return [f"exception {type(ex).__name__}: {str(ex)[:120]}"], script
    bad = compare(ref, (s, t, m, edges), universe)
    for x, y in pairs:
        later_targets = {p[1] for p in pairs[pairs.index((x, y)) + 1:]}
        if x not in later_targets and x not in ref.taint and (x in s | t | m):
            bad.append(f"{x}: still present after RENAME {x} TO {y}")
    return bad, script


def multi_rename(rep: Report, tier: str):
    import itertools as it

    bases = [
        [("rw", ("s1",), "a"), ("rw", ("s2",), "b")],
        [("rw", ("s1",), "a"), ("rw", ("a",), "b")],
        [("rw", ("s1",), "a")],
    ]
    tabs = ("a", "b", "t") if tier == "quick" else ("a", "b", "c", "t")
    pairs = [(x, y) for x in tabs for y in tabs if x != y]
    seqs = [list(p) for p in it.product(pairs, repeat=2)]
    seqs += [list(p) for p in it.product([(x, y) for x in ("a", "b", "t") for y in ("a", "b", "t") if x != y], repeat=3)]
    seqs = [sq for sq in seqs if len(set(sq)) == len(sq)]  # the same pair twice is an error in every database (the source is gone)
    tasks = [(b, sq, d) for b in bases for sq in seqs for d in (["mysql"] if tier == "quick" else ["mysql", "non-validating"])]
    res = pmap(_multi_rename, tasks, chunk=32)
    seen = set()
    for t, (bad, script) in zip(tasks, res):
        if bad:
            sig = (bad[0].split(":")[0], len(t[1]))
            if sig in seen:
                continue
            seen.add(sig)
            rep.violation("multi-pair-rename-disagrees-with-sequential-reference", {"part": "c", "base": [list(e) for e in t[0]], "pairs": t[1], "dialect": t[2], "script": script}, bad[:4])
    return {"scripts": len(tasks), "pair_sequences": len(seqs)}


def run(tier: str, opts: dict) -> int:
    rep = Report("C03", tier, "model_checking")
    t0 = time.time()
    T3, T2 = ("a", "b", "c"), ("a", "b")
    if tier == "quick":
        budget = 300
        runs = [
            bfs(rep, T3, "star", 3, t0 + budget, "3 tables, depth 3, SELECT * templates"),
            bfs(rep, T2, "lit", 30, t0 + budget, "2 tables, to fixpoint, literal templates"),
            bfs(rep, T2, "ddl", 4, t0 + budget, "2 tables, depth 4, CREATE TABLE (columns) as the read-nothing write"),
        ]
        pipe = pipeline(rep, [(T3, "star", "ansi", 2), (T2, "lit", "ansi", 3, ";"), (T2, "star", "mysql", 2), (T2, "ddl", "ansi", 3), (T3, "lit", "ansi", 2, ";"), (T2, "star", "ansi", 3, ";")], t0 + budget)
    else:
        budget = 840
        runs = [
            bfs(rep, T2, "lit", 40, t0 + 120, "2 tables, to fixpoint, literal templates"),
            bfs(rep, T2, "star", 40, t0 + 240, "2 tables, to fixpoint, SELECT * templates"),
            bfs(rep, T3, "lit", 4, t0 + 400, "3 tables, depth 4, literal templates"),
            bfs(rep, T2, "ddl", 40, t0 + 460, "2 tables, to fixpoint, CREATE TABLE (columns) as the read-nothing write"),
            bfs(rep, T3, "star", 12, t0 + 600, "3 tables, breadth-first until the time cap, SELECT * templates"),
        ]
        pipe = pipeline(
            rep,
            [(T3, "star", "ansi", 3), (T2, "lit", "ansi", 4, ";"), (T2, "star", "mysql", 3), (T2, "star", "non-validating", 3, ";"), (T2, "lit", "tsql", 3), (T3, "lit", "ansi", 3, ";")],
            t0 + budget,
        )
    multi = multi_rename(rep, tier)
    states = sum(r["states"] for r in runs)
    transitions = sum(r["transitions"] for r in runs)
    rep.coverage.update(
        states=states,
        transitions=transitions,
        traces_validated_against_impl=pipe["scripts"] + multi["scripts"],
        evaluations=transitions + pipe["scripts"] + multi["scripts"],
        multi_pair_rename=multi,
        distinct_nontrivial=states,
        samples=[s for r in runs for s in r["samples"]][:6] or ["(none)"],
        rule="alphabet: every (read-set, at most one write) over the table universe, DROP t, RENAME x TO y (40 letters on 3 "
        "tables, 15 on 2); each transition = real SQLLineageHolder.of over real analyzer holders, reference stepped in "
        "lock-step; states deduplicated by (table-level projection of the folded graph, reference state); pipeline part: every "
        "history up to the stated depth rendered to SQL and run through LineageRunner",
        exhaustive=all(r["fixpoint"] or r["depth_completed"] > 0 for r in runs) and not rep.caps,
        bfs_runs=runs,
        pipeline=pipe,
    )
    rep.assumptions += [
        "reference model written from the property text; where the text is silent (RENAME of a marked table, RENAME onto an existing table) affected tables are unconstrained",
        "DROP of a table that was never read or wired removes it (pinned by the repository's own test_drop_after_create)",
        "canonical form: per table presence, source-only/target-only marks, table successors/predecessors, has-non-table-neighbour bit",
    ]
    return rep.finish()


def replay(body: dict, opts: dict) -> int:
    c = body["case"]
    tables = tuple(c.get("tables", ()))
    hist = [tuple(tuple(x) if isinstance(x, list) else x for x in ev) for ev in c.get("history", [])]
    ref = ref_of(hist, c.get("style"))
    if c["part"] == "c":
        bad, script = _multi_rename((c["base"], [tuple(p) for p in c["pairs"]], c["dialect"]))
        print("script:", script)
        print("discrepancies:", bad)
        if bad:
            print(f"VIOLATION property=C03 replay={opts.get('path', '<replayed>')}")
            return 1
        print("OK on replay")
        return 0
    if c["part"] == "a":
        s, t, m, e, _ = impl_obs(tables, c["style"], hist)
        bad = compare(ref, (s, t, m, e), tables, hist[-1])
    else:
        bad, _ = _pipeline((tables, c["style"], c["dialect"], c["history"], c.get("term", "")))
    print("script:", c.get("script"))
    print("reference roles (source, target, intermediate):", [sorted(x) for x in ref.roles()], "unconstrained:", sorted(ref.taint))
    print("discrepancies:", bad)
    if bad:
        print(f"VIOLATION property=C03 replay={opts.get('path', '<replayed>')}")
        return 1
    print("OK on replay")
    return 0
