"""vmc - bounded-exhaustive (model-checking family) verification machinery for reata/sqllineage.

Engines (see /verif/DESIGN.md section 2):
  explorer.py  E1  deviation-bounded choice explorer (stateless)
  bfs.py       E2  explicit-state breadth-first search over the real transition function
  sched.py     E3  preemption-bounded thread scheduler (sys.monitoring + baton)
  hashctl.py   E4  controlled hashing: enumerate set-iteration orders
  (E5 fault / edit injection lives in the drivers c10.py / c12.py)
  sqlgen.py    E6  core-SQL AST, generator, renderer
  refsem.py    E6  reference semantics of lineage over that AST
  observe.py   E7  implementation adapter / canonical observation
  monitors.py  E8  invariant monitors (C06, C18)
  corpus.py    E9  corpus harvested from the current tree
  common.py    E10/E11 findings registry, evidence / replay writer, worker pool, pinned environment
"""
