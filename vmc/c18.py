"""C18 - the graph export is faithful to the lineage graph.

Invariants X1-X5 (vmc/monitors.py) on every result of the shared space of results, both export levels, the text summary
(also when other accessors were called first), and the /lineage response of the web application for the same script.
"""
from __future__ import annotations

from vmc import monitored


def run(tier, opts):
    return monitored.run("C18", tier, opts)


def replay(body, opts):
    return monitored.replay("C18", body, opts)
