"""E6 (part 2) - reference semantics of lineage over the sqlgen AST, written from the property texts
(C01 tables, C02 columns, C13 metadata knowledge, C14 default schema). Boring on purpose.

tables(st, default_schema)            -> (sources, targets) as sets of 'schema.table'
columns(st, K, default_schema)        -> set of (source, target) end-to-end pairs, where
    source = 'schema.table.col' | '?col[cand1|cand2]' (unresolved, sorted candidates)
    target = 'schema.table.col'
K: knowledge map 'schema.table' -> [column names] (tables the session / provider knows); absent = unknown.
"""
from __future__ import annotations

DEFAULT = "<default>"


def fq(t, default_schema=None):
    s = t["s"] if t["s"] is not None else (default_schema or DEFAULT)
    return f"{s}.{t['n']}"


# ------------------------------------------------------------------------------------------------
# tables
# ------------------------------------------------------------------------------------------------
def _tables_query(q, acc, ds):
    for c in q["ctes"]:
        _tables_query(c["q"], acc, ds)
    for s in q["branches"]:
        _tables_select(s, acc, ds)


def _tables_from(f, acc, ds):
    for r in f["rels"]:
        if r["k"] == "base":
            acc.add(fq(r["t"], ds))
        elif r["k"] == "path":
            acc.add(r["uri"])  # a file read in FROM is a source, named by its path
        elif r["k"] == "derived":
            _tables_query(r["q"], acc, ds)


def _tables_pred(p, acc, ds):
    if p is None:
        return
    if p[0] in ("in", "exists", "cmp"):
        _tables_query(p[1], acc, ds)
    elif p[0] == "cmp2":
        _tables_query(p[1], acc, ds)
        _tables_query(p[2], acc, ds)
    elif p[0] == "and":
        _tables_pred(p[1], acc, ds)
        _tables_pred(p[2], acc, ds)


def _tables_expr(e, acc, ds):
    if e[0] == "subq":
        _tables_query(e[1], acc, ds)
    elif e[0] == "casesubq":
        _tables_query(e[2], acc, ds)
    elif e[0] in ("func", "coalesce"):
        for a in e[1]:
            _tables_expr(a, acc, ds)
    elif e[0] in ("arith", "case", "window"):
        for a in e[1:]:
            if a:
                _tables_expr(a, acc, ds)
    elif e[0] in ("cast", "pgcast"):
        _tables_expr(e[1], acc, ds)


def _tables_select(s, acc, ds):
    _tables_from(s["from"], acc, ds)
    _tables_pred(s["where"], acc, ds)
    if isinstance(s["tail"], dict):
        _tables_query(s["tail"]["having"], acc, ds)
    for it in s["items"]:
        _tables_expr(it["e"], acc, ds)


def tables(st, default_schema=None):
    """every base table read at any nesting depth; the table written; statement-local names never"""
    src: set[str] = set()
    k = st["kind"]
    ds = default_schema
    if k in ("delete", "truncate"):
        return set(), set()  # statements that move no data report nothing
    if k in ("insert", "ctas", "view", "bare", "select_into"):
        _tables_query(st["q"], src, ds)
    elif k == "insert_dir":  # the directory is what the statement writes
        _tables_query(st["q"], src, ds)
        return src, {st["path"]}
    elif k == "copy_from":  # the file is read, the table written
        src.add(st["path"])
    elif k == "copy_to":  # the table or the query is read, the file (if any: not STDOUT) written
        if st.get("table"):
            src.add(fq(st["table"], ds))
        else:
            _tables_query(st["q"], src, ds)
        return src, ({st["path"]} if st["path"] else set())
    elif k == "update":
        if st["from"]:
            _tables_from(st["from"], src, ds)
        _tables_pred(st["where"], src, ds)
        for _, e in st["set"]:
            _tables_expr(e, src, ds)
    elif k == "merge":
        u = st["using"]
        if u["k"] == "base":
            src.add(fq(u["t"], ds))
        else:
            _tables_query(u["q"], src, ds)
    tgt = {fq(st["target"], ds)} if st.get("target") else set()
    return src, tgt


# ------------------------------------------------------------------------------------------------
# columns
# ------------------------------------------------------------------------------------------------
class Rel:
    __slots__ = ("kind", "quals", "table", "cols", "label")

    def __init__(self, kind, quals, table, cols, label):
        self.kind, self.quals, self.table, self.cols, self.label = kind, quals, table, cols, label


def _unres(name, cands):
    return f"?{name}[{'|'.join(sorted(cands))}]"


def _rel(r, env, K, ds):
    if r["k"] == "base":
        t = fq(r["t"], ds)
        if r["alias"]:
            quals = {r["alias"]}  # an alias shadows the bare table name
        else:
            quals = {r["t"]["n"], t} | ({f"{r['t']['s']}.{r['t']['n']}"} if r["t"]["s"] else set())
        return Rel("base", quals, t, None, t)
    if r["k"] == "derived":
        return Rel("sub", {r["alias"]}, None, eval_query(r["q"], env, K, ds), r["alias"])
    # label: a CTE stays one relation however it is aliased where it is read; it is named by its CTE name
    return Rel("sub", {r["alias"] or r["name"]}, None, env[r["name"]], r["name"])


def _expand(rel: Rel, name, K):
    """sources of column `name` of relation rel"""
    if rel.kind == "base":
        return {f"{rel.table}.{name}"}
    for n, srcs in rel.cols:
        if n == name:
            return set(srcs)
    out = set()
    for n, srcs in rel.cols:
        if n == "*":  # the derived table selects * : the column comes from the star's tables
            out |= {s[: -len("*")] + name for s in srcs if s.endswith(".*")}
    return out


_GREC = [None]  # pass 1: records every (table, column) a reference is resolved to with certainty
_GFIX = [frozenset()]  # pass 2: the statement's own evidence "table t has column c" (see columns())


def _note(rel: Rel, name):
    if _GREC[0] is not None and rel.kind == "base":
        _GREC[0].add((rel.table, name))


def _exposes(rel: Rel, name, K):
    """does the relation positively expose this column name (derived output list / known metadata / the same column
    of the same table read with certainty elsewhere in the statement)?"""
    if rel.kind == "base":
        return (rel.table in K and name in K[rel.table]) or (rel.table, name) in _GFIX[0]
    return any(n == name for n, _ in rel.cols)


_LCA = [None]  # when lateral column alias reference is on: {alias of an earlier select item: its sources}


def _resolve(scope, qual, name, K):
    if qual is None and _LCA[0] is not None and name in _LCA[0] and not any(_exposes(r, name, K) for r in scope):
        return set(_LCA[0][name])  # the name is an alias defined earlier in this select list and no source relation has such a column
    if qual is not None:
        for r in scope:
            if qual in r.quals:
                _note(r, name)
                return _expand(r, name, K)
        return {f"{DEFAULT}.{qual}.{name}"}
    if len(scope) == 1:
        _note(scope[0], name)
        return _expand(scope[0], name, K)
    known = [r for r in scope if _exposes(r, name, K)]
    if known:
        out = set()
        for r in known:
            out |= _expand(r, name, K)
        return out
    # nothing disambiguates: unresolved with its candidates, exactly as without metadata (the property only says
    # a column is never *attributed* to a known table lacking it; it does not require the candidate list to shrink)
    return {_unres(name, [r.label for r in scope])}


def _expr_sources(e, scope, env, K, ds):
    k = e[0]
    if k == "col":
        return _resolve(scope, e[1], e[2], K)
    if k == "lit":
        return set()
    if k in ("func", "coalesce"):
        out = set()
        for a in e[1]:
            out |= _expr_sources(a, scope, env, K, ds)
        return out
    if k in ("arith", "case", "window"):
        out = set()
        for a in e[1:]:
            if a:
                out |= _expr_sources(a, scope, env, K, ds)
        return out
    if k in ("cast", "pgcast"):
        return _expr_sources(e[1], scope, env, K, ds)
    if k == "subq":
        cols = eval_query(e[1], env, K, ds)
        return set(cols[0][1]) if cols else set()
    if k == "casesubq":
        cols = eval_query(e[2], env, K, ds)
        return _expr_sources(e[1], scope, env, K, ds) | (set(cols[0][1]) if cols else set())
    raise AssertionError(k)


_KSTAR = [None]  # when set: the knowledge map used for * expansion (C04: session knowledge expands * only with a provider in use)


def _star(rels, K):
    out = []
    if _KSTAR[0] is not None:
        K = _KSTAR[0]
    for r in rels:
        if r.kind == "base":
            if r.table in K:
                out += [(c, {f"{r.table}.{c}"}) for c in K[r.table]]
            else:
                out.append(("*", {f"{r.table}.*"}))
        else:
            out += [(n, set(s)) for n, s in r.cols]
    return out


LCA_ON = [False]


def _visit_pred(p, env, K, ds):
    """subqueries of predicates yield no pairs, but the columns they read are evidence for pass 2"""
    if p is None:
        return
    if p[0] in ("in", "exists", "cmp"):
        eval_query(p[1], env, K, ds)
    elif p[0] == "cmp2":
        eval_query(p[1], env, K, ds)
        eval_query(p[2], env, K, ds)
    elif p[0] == "and":
        _visit_pred(p[1], env, K, ds)
        _visit_pred(p[2], env, K, ds)


def eval_select(s, env, K, ds):
    scope = [_rel(r, env, K, ds) for r in s["from"]["rels"]]
    if _GREC[0] is not None:
        _visit_pred(s.get("where"), env, K, ds)
        if isinstance(s.get("tail"), dict):
            eval_query(s["tail"]["having"], env, K, ds)
    out = []
    saved = _LCA[0]
    _LCA[0] = {} if LCA_ON[0] else None
    try:
        for it in s["items"]:
            e = it["e"]
            if e[0] == "star":
                rels = scope if e[1] is None else [r for r in scope if e[1] in r.quals]
                out += _star(rels, K)
            else:
                name = it["alias"] or (e[2] if e[0] == "col" else "<expr>")
                srcs = _expr_sources(e, scope, env, K, ds)
                out.append((name, srcs))
                if _LCA[0] is not None and it["alias"]:
                    _LCA[0][it["alias"]] = srcs
    finally:
        _LCA[0] = saved
    return out


def eval_query(q, env, K, ds):
    env = dict(env)
    for c in q["ctes"]:
        if c.get("recursive"):
            env[c["name"]] = eval_select(c["q"]["branches"][0], env, K, ds)  # the anchor defines the columns
        env[c["name"]] = eval_query(c["q"], env, K, ds)
    outs = [eval_select(s, env, K, ds) for s in q["branches"]]
    first = outs[0]
    if len(outs) == 1:
        return first
    res = []
    for i, (name, srcs) in enumerate(first):
        s = set(srcs)
        for o in outs[1:]:
            if i < len(o):
                s |= o[i][1]
        res.append((name, s))
    return res


def columns(st, K=None, default_schema=None, Kstar=None, evidence=()):
    """two passes: the first collects the statement's own evidence - every (table, column) some reference is resolved
    to with certainty (qualified, or the only relation in scope), in any scope of the statement; in the second that
    evidence disambiguates unqualified references exactly as metadata would: in valid SQL a table known to have the
    column is the one an otherwise ambiguous reference means. `evidence`: pairs known from other statements."""
    _KSTAR[0] = Kstar
    try:
        _GREC[0], _GFIX[0] = set(), frozenset()
        _columns(st, K, default_schema)
        if st["kind"] == "update":
            _visit_pred(st.get("where"), {}, K or {}, default_schema)
        _GFIX[0] = frozenset(_GREC[0]) | frozenset(evidence)
        _GREC[0] = None
        return _columns(st, K, default_schema)
    finally:
        _KSTAR[0] = None
        _GREC[0], _GFIX[0] = None, frozenset()


def evidence_of(st, K=None, default_schema=None):
    """the (table, column) evidence a statement contributes (pass 1 of columns())"""
    try:
        _GREC[0], _GFIX[0] = set(), frozenset()
        _columns(st, K, default_schema)
        if st["kind"] == "update":
            _visit_pred(st.get("where"), {}, K or {}, default_schema)
        return frozenset(_GREC[0])
    finally:
        _GREC[0], _GFIX[0] = None, frozenset()


def output_names(st, K=None, default_schema=None, Kstar=None):
    """column names the statement gives its target (used as session knowledge by later statements); '*' excluded"""
    _KSTAR[0] = Kstar
    try:
        if st["kind"] not in ("insert", "ctas", "view", "select_into"):
            return []
        cols = eval_query(st["q"], {}, K or {}, default_schema)
        names = [n for n, _ in cols]
        Kt = _KSTAR[0] if _KSTAR[0] is not None else (K or {})
        tgt = fq(st["target"], default_schema)
        if st.get("collist") and len(st["collist"]) == len(cols):
            names = list(st["collist"])
        elif st["kind"] == "insert" and tgt in Kt and len(Kt[tgt]) == len(cols):
            names = list(Kt[tgt])
        out = []
        for n in names:
            if n != "*" and n not in out:
                out.append(n)
        return out
    finally:
        _KSTAR[0] = None


def _columns(st, K=None, default_schema=None):
    K = K or {}
    ds = default_schema
    k = st["kind"]
    pairs = set()
    if k in ("bare", "delete", "truncate"):
        return pairs
    tgt = fq(st["target"], ds)
    Kt = _KSTAR[0] if _KSTAR[0] is not None else K  # knowledge that needs a provider in use (session tables, C04)
    if k in ("insert", "ctas", "view", "select_into"):
        cols = eval_query(st["q"], {}, K, ds)
        names = [n for n, _ in cols]
        if st.get("collist") and len(st["collist"]) == len(cols):
            names = list(st["collist"])  # an explicit column list always wins
        elif k == "insert" and tgt in Kt and len(Kt[tgt]) == len(cols):
            names = list(Kt[tgt])  # known target columns name the positions of an INSERT without column list
        for n, (_, srcs) in zip(names, cols):
            for s in srcs:
                pairs.add((s, f"{tgt}.{n}"))
        return pairs
    if k == "update":
        # the updated table itself is in scope; with a FROM clause its relations are too
        scope = [_rel(r, {}, K, ds) for r in st["from"]["rels"]] if st["from"] else [Rel("base", {st["target"]["n"], tgt}, tgt, None, tgt)]
        for c, e in st["set"]:
            for s in _expr_sources(e, scope, {}, K, ds):
                pairs.add((s, f"{tgt}.{c}"))
        return pairs
    if k == "merge":
        u = _rel(st["using"], {}, K, ds)
        for c, sname in st["update"]:
            for s in _expand(u, sname, K):
                pairs.add((s, f"{tgt}.{c}"))
        for arm in ("insert", "insert2"):
            if st.get(arm):
                ic, iv = st[arm]
                for c, sname in zip(ic, iv):
                    for s in _expand(u, sname, K):
                        pairs.add((s, f"{tgt}.{c}"))
        return pairs
    raise AssertionError(k)


def selftest():
    """hand-written expectations derived from the property text"""
    from vmc import sqlgen as g

    T = g.T
    base = lambda n, a=None, s=None: {"k": "base", "t": T(n, s), "alias": a, "as": False}  # noqa: E731
    sel = lambda items, rels, shape="one": {"items": items, "from": {"shape": shape, "rels": rels}, "where": None, "tail": None}  # noqa: E731
    q1 = lambda s: {"ctes": [], "branches": [s], "ops": []}  # noqa: E731
    col = lambda q, n, a=None: {"e": ["col", q, n], "alias": a}  # noqa: E731
    # INSERT INTO tgt SELECT a1.c1 AS x FROM t1 a1 JOIN s1.t2 ON ...
    st = {"kind": "insert", "target": T("tgt"), "collist": None, "q": q1(sel([col("a1", "c1", "x")], [base("t1", "a1"), base("t2", None, "s1")], "join"))}
    assert tables(st) == ({"<default>.t1", "s1.t2"}, {"<default>.tgt"})
    assert columns(st) == {("<default>.t1.c1", "<default>.tgt.x")}
    # unqualified over two relations: unresolved with candidates
    st2 = {"kind": "ctas", "target": T("tgt"), "collist": None, "q": q1(sel([col(None, "c1")], [base("t1"), base("t2")], "comma"))}
    assert columns(st2) == {("?c1[<default>.t1|<default>.t2]", "<default>.tgt.c1")}, columns(st2)
    # the statement's own evidence disambiguates: a1.c1 says t1 has c1
    st2b = {"kind": "ctas", "target": T("tgt"), "collist": None, "q": q1(sel([col("a1", "c1", "x"), col(None, "c1")], [base("t1", "a1"), base("t2", "a2")], "join"))}
    assert columns(st2b) == {("<default>.t1.c1", "<default>.tgt.x"), ("<default>.t1.c1", "<default>.tgt.c1")}, columns(st2b)
    # metadata disambiguates; a known table lacking the column is never a candidate
    assert columns(st2, {"<default>.t1": ["c1"], "<default>.t2": ["z"]}) == {("<default>.t1.c1", "<default>.tgt.c1")}
    assert columns(st2, {"<default>.t2": ["z"]}) == {("?c1[<default>.t1|<default>.t2]", "<default>.tgt.c1")}
    # derived table traced through, union position by position, column list wins
    d = {"k": "derived", "q": {"ctes": [], "branches": [sel([col(None, "c1", "x1")], [base("t1")]), sel([col(None, "c2")], [base("t2")])], "ops": ["UNION ALL"]}, "alias": "a1"}
    st3 = {"kind": "insert", "target": T("tgt"), "collist": ["k0"], "q": q1(sel([col("a1", "x1")], [d]))}
    assert tables(st3)[0] == {"<default>.t1", "<default>.t2"}
    assert columns(st3) == {("<default>.t1.c1", "<default>.tgt.k0"), ("<default>.t2.c2", "<default>.tgt.k0")}
    # star stays t.* for an unknown table, expands for a known one; default schema applies to unqualified names only
    st4 = {"kind": "insert", "target": T("tgt"), "collist": None, "q": q1(sel([{"e": ["star", None], "alias": None}], [base("t1"), base("t2", None, "s1")], "join"))}
    assert columns(st4, {"s1.t2": ["p", "q"]}, "dflt") == {("dflt.t1.*", "dflt.tgt.*"), ("s1.t2.p", "dflt.tgt.p"), ("s1.t2.q", "dflt.tgt.q")}
    # CTE name is never a table; later CTE may read an earlier one
    stc = {"kind": "bare", "target": None, "collist": None, "q": {"ctes": [{"name": "cte1", "q": q1(sel([col(None, "c1")], [base("t1")]))}], "branches": [sel([col(None, "c1")], [{"k": "cte", "name": "cte1", "alias": None}])], "ops": []}}
    assert tables(stc) == ({"<default>.t1"}, set())
    assert tables({"kind": "truncate", "target": None, "table": T("t1")}) == (set(), set())
