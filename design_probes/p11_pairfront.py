import warnings, json, itertools, time
warnings.simplefilter("ignore")
from sqllineage.runner import LineageRunner
from sqllineage.core import models as M
from sqllineage.core.metadata.dummy import DummyMetaDataProvider
from sqlfluff.core import Linter
ASSIGN={}; SEEN=[]; OTHER={}
def H(s):
    if s in ASSIGN: return ASSIGN[s]
    if s not in OTHER:
        i=len(OTHER); OTHER[s]=8*(i+1)+3+(i%5)
        SEEN.append(s)
    return OTHER[s]
for cls in (M.Schema, M.Table, M.Column): cls.__hash__=lambda self: H(str(self))
M.Path.__hash__=lambda self: H(self.uri); M.SubQuery.__hash__=lambda self: H(self.query_raw)
_orig=Linter.parse_string; _memo={}
def memo_parse(self, sql, *a, **k):
    key=(sql, self.config.get("dialect"))
    if key not in _memo: _memo[key]=_orig(self, sql, *a, **k)
    return _memo[key]
Linter.parse_string=memo_parse
def dump(sql,d,md):
    try:
        r=LineageRunner(sql,dialect=d,metadata_provider=DummyMetaDataProvider(md))
        return json.dumps([[str(x) for x in r.source_tables],[str(x) for x in r.target_tables],[[str(c) for c in p] for p in r.get_column_lineage()]])
    except Exception as e: return "EXC "+type(e).__name__
cases=[("insert into b select * from a; rename table b to c, c to d","mysql",None),
 ("insert into s.t select * from s.a join s.b on a.id=b.id","ansi",{"s.a":["id","x"],"s.b":["id","y"]}),
 ("insert into t1 select a+b as s from t2 x join t3 y on x.i=y.i","ansi",None)]
for sql,d,md in cases:
    ASSIGN.clear(); OTHER.clear(); SEEN.clear(); dump(sql,d,md); names=list(SEEN)
    outs={}; t=time.time(); n=0
    for a,b in itertools.permutations(names,2):
        ASSIGN.clear(); OTHER.clear(); ASSIGN[a]=0; ASSIGN[b]=1
        o=dump(sql,d,md); outs[o]=outs.get(o,0)+1; n+=1
    print(len(names),"names",n,"pair-assignments",round(time.time()-t,2),"s outcomes",len(outs), {k[:60]:v for k,v in outs.items()})
