import warnings, sys, os, json, io
warnings.simplefilter("ignore")
from sqllineage.drawing import app
import sqllineage.drawing as D
print("root", app.root_path)
def req(method, path, body=None):
    st={}
    def sr(status, headers): st['s']=status
    env={"REQUEST_METHOD":method,"PATH_INFO":path}
    if body is not None:
        b=json.dumps(body).encode()
        env["CONTENT_LENGTH"]=str(len(b)); env["wsgi.input"]=io.BytesIO(b)
    try:
        out=app(env, sr)
        return st.get('s'), b"".join(out)[:200]
    except Exception as e:
        return "EXC", type(e).__name__, str(e)[:100]
root=str(app.root_path)
print(req("POST","/script",{"f":"/etc/hostname"}))
print(req("POST","/script",{"f":root+"/../../../../etc/hostname"}))
print(req("POST","/script",{"f":root+"/../../../etc/hostname"}))
print(req("POST","/directory",{"d":root+"/.."}))
print(req("POST","/directory",{"d":root+"_sibling"}))
print(req("POST","/directory",{"d":"relative"}))
print(req("POST","/script",{"f":5}))
print(req("POST","/script",{"f":None}))
print(req("POST","/script",[1]))
print(req("POST","/script",{"f":root+"/tpcds"}))
print(req("POST","/lineage",{"f":root+"/tpcds/query01.sql"})[0])
print(req("GET","/"))
print(req("GET","/x/%2e%2e/y"))
