import itertools, time, warnings, collections, sys
warnings.simplefilter("ignore")
from sqllineage.core.holders import SQLLineageHolder, StatementLineageHolder
from sqllineage.core.metadata.dummy import DummyMetaDataProvider
from sqllineage.core.parser.sqlfluff.analyzer import SqlFluffLineageAnalyzer
from sqllineage.core.models import Table, Column
T=["a","b","c"]
prov=DummyMetaDataProvider()
an=SqlFluffLineageAnalyzer(".", "ansi")
alphabet=[]
for r in range(0,4):
    for reads in itertools.combinations(T,r):
        for w in [None]+T:
            if not reads and w is None: continue
            if reads and w: sql=f"INSERT INTO {w} SELECT * FROM {', '.join(reads)}"
            elif reads: sql=f"SELECT * FROM {', '.join(reads)}"
            else: sql=f"INSERT INTO {w} VALUES (1)"
            alphabet.append((("rw",reads,w),sql))
for t in T: alphabet.append((("drop",t),f"DROP TABLE {t}"))
for x,y in itertools.permutations(T,2): alphabet.append((("ren",x,y),f"ALTER TABLE {x} RENAME TO {y}"))
print(len(alphabet))
holders={ev:an.analyze(sql,prov) for ev,sql in alphabet}
def canon(g):
    nodes=tuple(sorted((type(n).__name__, str(n), tuple(sorted((k,v) for k,v in d.items() if v))) for n,d in g.nodes(data=True)))
    edges=tuple(sorted((str(u),str(v),d.get("type")) for u,v,d in g.edges(data=True)))
    return nodes,edges
def build(hist):
    return SQLLineageHolder.of(prov,*[holders[e] for e in hist])
t0=time.time()
seen={canon(build([]).graph):[]}; frontier=collections.deque([[]]); trans=0; exc=collections.Counter(); depthmax=0
while frontier:
    hist=frontier.popleft()
    for ev,_ in alphabet:
        trans+=1
        try:
            h=build(hist+[ev])
        except Exception as e:
            exc[type(e).__name__]+=1
            if exc[type(e).__name__]<4: print("EXC",type(e).__name__,e,hist+[ev])
            continue
        k=canon(h.graph)
        if k not in seen:
            seen[k]=hist+[ev]; frontier.append(hist+[ev]); depthmax=max(depthmax,len(hist)+1)
    if len(seen)%500<3 and trans%40==0: print(len(seen),trans,depthmax,round(time.time()-t0,1),flush=True)
    if time.time()-t0>240: print("timeout"); break
print("states",len(seen),"transitions",trans,"maxdepth",depthmax,"exc",dict(exc),"t",round(time.time()-t0,1))
