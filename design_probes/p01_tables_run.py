import sys, re, collections, time, warnings
warnings.simplefilter("ignore")
from p01_tables_enum import *
from sqllineage.runner import LineageRunner
from concurrent.futures import ProcessPoolExecutor
def run(args):
    sql,src,tgt=args
    try:
        r=LineageRunner(sql)
        a_src={str(x) for x in r.source_tables}; a_tgt={str(x) for x in r.target_tables}
        return sql,src,tgt,a_src,a_tgt,None
    except Exception as e:
        return sql,src,tgt,None,None,type(e).__name__+": "+str(e)[:80]
if __name__=="__main__":
    bound=int(sys.argv[1]); depth=int(sys.argv[2])
    seen={}
    for trace,(sql,src,tgt) in explore(lambda ch: stmt(ch,depth), bound):
        seen.setdefault(sql,(sql,src,tgt))
    t=time.time()
    with ProcessPoolExecutor(16) as ex:
        res=list(ex.map(run, seen.values(), chunksize=50))
    print("cases",len(res),"wall",round(time.time()-t,1))
    resid=[]; cnt=collections.Counter()
    for sql,src,tgt,a_src,a_tgt,err in res:
        if err: cnt["EXC"]+=1; resid.append((sql,err)); continue
        if (a_src,a_tgt)==(src,tgt): cnt["ok"]+=1; continue
        feats=[]
        if re.search(r"JOIN [^()]*ON 1=1, ", sql) or re.search(r", \S+( a\d| AS a\d)? JOIN", sql) or re.search(r"\) a\d JOIN [^()]* ON 1=1, ",sql): feats.append("mixed")
        if re.search(r"SELECT c1, \(SELECT", sql): feats.append("selsub")
        if "HAVING" in sql: feats.append("having")
        if not feats: resid.append((sql,sorted(src-a_src),sorted(a_src-src),sorted(a_tgt)))
        cnt["+".join(feats) or "RESIDUAL"]+=1
    print(dict(cnt))
    for r in sorted(resid,key=lambda e:len(e[0]))[:40]: print("  ",r)
