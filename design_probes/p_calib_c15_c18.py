import warnings, sys, os, json, io
warnings.simplefilter("ignore")
from sqllineage.runner import LineageRunner
from sqllineage.config import SQLLineageConfig
from sqllineage.exceptions import ConfigException
# C15
try:
    with SQLLineageConfig(DEFAULT_SCHEMA="a", UNKNOWN=1):
        pass
except ConfigException as e: print("rejected:", e)
print("after mixed reject:", repr(SQLLineageConfig.DEFAULT_SCHEMA), SQLLineageConfig._thread_config)
SQLLineageConfig._thread_config.clear()
with SQLLineageConfig(DEFAULT_SCHEMA="a"):
    try:
        with SQLLineageConfig(DEFAULT_SCHEMA="b"):
            pass
    except ConfigException as e: print("rejected nested:", e)
    print("in outer after nested reject:", repr(SQLLineageConfig.DEFAULT_SCHEMA), SQLLineageConfig._thread_in_context_manager)
print("after:", repr(SQLLineageConfig.DEFAULT_SCHEMA), SQLLineageConfig._thread_config, SQLLineageConfig._thread_in_context_manager)
with SQLLineageConfig(TSQL_NO_SEMICOLON="yes", DEFAULT_SCHEMA=5):
    print(repr(SQLLineageConfig.TSQL_NO_SEMICOLON), repr(SQLLineageConfig.DEFAULT_SCHEMA))
with SQLLineageConfig(DEFAULT_SCHEMA=""):
    os.environ["SQLLINEAGE_DEFAULT_SCHEMA"]="envs"
    print("override to empty string with env set:", repr(SQLLineageConfig.DEFAULT_SCHEMA))
    del os.environ["SQLLINEAGE_DEFAULT_SCHEMA"]
with SQLLineageConfig(TSQL_NO_SEMICOLON=False):
    os.environ["SQLLINEAGE_TSQL_NO_SEMICOLON"]="true"
    print("override False with env true:", repr(SQLLineageConfig.TSQL_NO_SEMICOLON))
    del os.environ["SQLLINEAGE_TSQL_NO_SEMICOLON"]
# C18
r = LineageRunner("insert into t1 select c from a join b on a.id=b.id; insert into t2 select c from d join e on d.id=e.id")
print(json.dumps(r.to_cytoscape("column"), indent=None))
r = LineageRunner("insert into t1 select x.c from (select c from a) x; insert into t2 select x.c from (select c from b) x")
print(json.dumps(r.to_cytoscape("column"), indent=None))
print(r)
