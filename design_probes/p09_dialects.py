import sys, collections, time, warnings
warnings.simplefilter("ignore")
import p01_tables_enum as gen, p02_columns_enum as gen2
from p01_tables_enum import explore
from concurrent.futures import ProcessPoolExecutor
def run(args):
    sql,d=args
    from sqllineage.runner import LineageRunner
    try:
        r=LineageRunner(sql,dialect=d)
        cols=set()
        for p in r.get_column_lineage():
            s=p[0]; cols.add((str(s) if s.parent is not None else s.raw_name+"?"+"|".join(str(c) for c in s.parent_candidates), str(p[-1])) if len(p)>1 else ("<none>",str(p[0])))
        return sql,d,(tuple(sorted(map(str,r.source_tables))),tuple(sorted(map(str,r.target_tables))),tuple(sorted(cols)))
    except Exception as e:
        return sql,d,"EXC:"+type(e).__name__
if __name__=="__main__":
    from sqllineage.runner import LineageRunner
    ds=sum(LineageRunner.supported_dialects().values(),[])
    bound=int(sys.argv[1])
    sqls=set()
    for tr,(sql,src,tgt) in explore(lambda ch: gen.stmt(ch,1), bound): sqls.add(sql)
    for tr,(sql,exp) in explore(lambda ch: gen2.stmt(ch,1), bound): sqls.add(sql)
    jobs=[(s,d) for s in sorted(sqls) for d in ds]
    t=time.time()
    with ProcessPoolExecutor(16) as ex: res=list(ex.map(run,jobs,chunksize=40))
    print("stmts",len(sqls),"runs",len(res),"wall",round(time.time()-t,1))
    by=collections.defaultdict(dict)
    for sql,d,o in res: by[sql][d]=o
    rej=collections.Counter(); dis=collections.Counter(); ex_=collections.defaultdict(list); tdis=collections.Counter()
    for sql,m in by.items():
        ref=m["ansi"]
        for d,o in m.items():
            if isinstance(o,str): rej[(d,o)]+=1; continue
            if isinstance(ref,str): continue
            if o!=ref:
                dis[d]+=1
                if o[:2]!=ref[:2]: tdis[d]+=1
                ex_[d].append((sql,o,ref))
    print("rejections",sorted(rej.items(),key=lambda x:-x[1])[:40])
    print("disagree-with-ansi",dict(dis)); print("table-level",dict(tdis))
    for d,v in ex_.items():
        for sql,o,ref in sorted(v,key=lambda e:len(e[0]))[:3]:
            print(d,"|",sql,"\n     got",o,"\n     ansi",ref)
