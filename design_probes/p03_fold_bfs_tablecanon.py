import itertools, time, warnings, collections, sys
warnings.simplefilter("ignore")
from sqllineage.core.holders import SQLLineageHolder, StatementLineageHolder, DATASET_CLASSES
from sqllineage.core.metadata.dummy import DummyMetaDataProvider
from sqllineage.core.parser.sqlfluff.analyzer import SqlFluffLineageAnalyzer
T=["a","b","c"]
mode=sys.argv[1]
prov=DummyMetaDataProvider()
an=SqlFluffLineageAnalyzer(".", "ansi")
alphabet=[]
item = "*" if mode=="star" else "1"
for r in range(0,4):
    for reads in itertools.combinations(T,r):
        for w in [None]+T:
            if not reads and w is None: continue
            if reads and w: sql=f"INSERT INTO {w} SELECT {item} FROM {', '.join(reads)}"
            elif reads: sql=f"SELECT {item} FROM {', '.join(reads)}"
            else: sql=f"INSERT INTO {w} VALUES (1)"
            alphabet.append((("rw",reads,w),sql))
for t in T: alphabet.append((("drop",t),f"DROP TABLE {t}"))
for x,y in itertools.permutations(T,2): alphabet.append((("ren",x,y),f"ALTER TABLE {x} RENAME TO {y}"))
holders={ev:an.analyze(sql,prov) for ev,sql in alphabet}
def canon(g):
    out=[]
    for n,d in g.nodes(data=True):
        if not isinstance(n, DATASET_CLASSES): continue
        tags=tuple(sorted(k for k,v in d.items() if v is True and k in ("source_only","target_only")))
        succ=tuple(sorted(str(v) for v in g.successors(n) if isinstance(v,DATASET_CLASSES)))
        pred=tuple(sorted(str(v) for v in g.predecessors(n) if isinstance(v,DATASET_CLASSES)))
        other=any(not isinstance(v,DATASET_CLASSES) for v in itertools.chain(g.successors(n),g.predecessors(n)))
        out.append((str(n),tags,succ,pred,other))
    return tuple(sorted(out))
def build(hist):
    return SQLLineageHolder.of(prov,*[holders[e] for e in hist])
t0=time.time()
seen={canon(build([]).graph):[]}; frontier=collections.deque([[]]); trans=0; exc=collections.Counter(); depthmax=0
while frontier:
    hist=frontier.popleft()
    for ev,_ in alphabet:
        trans+=1
        try:
            h=build(hist+[ev])
        except Exception as e:
            exc[type(e).__name__]+=1
            if exc[type(e).__name__]<4: print("EXC",type(e).__name__,e,hist+[ev])
            continue
        k=canon(h.graph)
        if k not in seen:
            seen[k]=hist+[ev]; frontier.append(hist+[ev]); depthmax=max(depthmax,len(hist)+1)
    if time.time()-t0>400: print("timeout"); break
print("states",len(seen),"transitions",trans,"maxdepth",depthmax,"exc",dict(exc),"t",round(time.time()-t0,1))
