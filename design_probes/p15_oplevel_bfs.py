import os, collections, copy, time, itertools
from sqllineage.config import _SQLLineageConfigLoader
from sqllineage.exceptions import ConfigException
CUR=[0]
_SQLLineageConfigLoader.get_ident=staticmethod(lambda: CUR[0])
KEYS=["DEFAULT_SCHEMA","TSQL_NO_SEMICOLON"]
ENV={"SQLLINEAGE_TSQL_NO_SEMICOLON":"true"}
os.environ.update(ENV)
OPENS=[{"DEFAULT_SCHEMA":"a"},{"DEFAULT_SCHEMA":"b","TSQL_NO_SEMICOLON":False},{"DEFAULT_SCHEMA":""},{"TSQL_NO_SEMICOLON":"yes"},{"BOGUS":1},{"DEFAULT_SCHEMA":"c","BOGUS":1}]
OPS=[("open",i) for i in range(len(OPENS))]+[("close",0),("close_exc",0),("assign",0)]
NT=2; MAXOPS=4
def build(hist):
    cfg=_SQLLineageConfigLoader(); ref={t:[] for t in range(NT)}; bad=[]
    for (t,op,arg) in hist:
        CUR[0]=100+t
        if op=="open":
            kw=OPENS[arg]; 
            try:
                cm=cfg(**kw); cm.__enter__(); ok=True
            except ConfigException: ok=False
            valid=all(k in cfg.config for k in kw) and not ref[t]
            if valid: ref[t].append({k:cfg.parse_value(v,cfg.config[k][0]) for k,v in kw.items()})
            if ok!=valid: bad.append(("accept",t,op,arg))
        elif op in("close","close_exc"):
            if ref[t]:
                cfg.__exit__(*( (ValueError,ValueError(),None) if op=="close_exc" else (None,None,None))); ref[t].pop()
        elif op=="assign":
            try: cfg.DEFAULT_SCHEMA="zzz"; bad.append(("assign-accepted",t))
            except ConfigException: pass
        # observe all threads, all keys
        for tt in range(NT):
            CUR[0]=100+tt
            for k in KEYS:
                exp = ref[tt][-1][k] if ref[tt] and k in ref[tt][-1] else cfg.parse_value(os.environ.get("SQLLINEAGE_"+k, cfg.config[k][1]), cfg.config[k][0])
                got=getattr(cfg,k)
                if got!=exp or type(got)!=type(exp): bad.append(("read",tt,k,got,exp))
    return cfg,ref,bad
def canon(cfg,ref,hist):
    cnt=collections.Counter(t for t,_,_ in hist)
    return (repr(sorted((k,sorted(v.items())) for k,v in cfg._thread_config.items())), repr(sorted(cfg._thread_in_context_manager)), repr(ref), tuple(sorted(cnt.items())))
t0=time.time(); seen={}; fr=collections.deque([[]]); trans=0; viol=collections.Counter(); first={}
while fr:
    h=fr.popleft(); cnt=collections.Counter(t for t,_,_ in h)
    for t in range(NT):
        if cnt[t]>=MAXOPS: continue
        for op,arg in OPS:
            trans+=1; hh=h+[(t,op,arg)]
            cfg,ref,bad=build(hh)
            if bad:
                k=bad[0][:1]+(op,arg); viol[k]+=1; first.setdefault(k,(hh,bad[0])); continue
            c=canon(cfg,ref,hh)
            if c not in seen: seen[c]=hh; fr.append(hh)
print("states",len(seen),"transitions",trans,"t",round(time.time()-t0,1),"violating transitions",sum(viol.values()))
for k,v in first.items(): print(k,viol[k],v)
