import itertools, warnings, collections
warnings.simplefilter("ignore")
from concurrent.futures import ProcessPoolExecutor
def run(job):
    sql,md=job
    from sqllineage.runner import LineageRunner
    from sqllineage.core.metadata.dummy import DummyMetaDataProvider
    try:
        r=LineageRunner(sql,metadata_provider=DummyMetaDataProvider(md))
        def nm(c): return str(c) if c.parent is not None else c.raw_name+"?"+"|".join(str(x) for x in c.parent_candidates)
        return (tuple(map(str,r.source_tables)),tuple(map(str,r.target_tables)),tuple(sorted((nm(p[0]),nm(p[-1])) if len(p)>1 else ("<none>",nm(p[0])) for p in r.get_column_lineage())))
    except Exception as e: return "EXC "+type(e).__name__
def ref(shape, items, K, tgtK, collist):
    """reference per C13 text. shape: list of (table, alias). items: list of ('col',name)|('star',None)|('qstar',i)"""
    out=[]  # list of (name, set(sources))
    tabs=[t for t,_ in shape]
    for it in items:
        if it[0]=="col":
            n=it[1]
            if len(tabs)==1: out.append((n,{tabs[0]+"."+n})); continue
            known_has=[t for t in tabs if t in K and n in K[t]]
            if known_has: out.append((n,{t+"."+n for t in known_has}))
            else:
                cands=[t for t in tabs]  # impl lists all candidates; property: never attribute to known-lacking
                out.append((n,{n+"?"+"|".join(sorted(cands))}))
        else:
            ts=tabs if it[0]=="star" else [tabs[it[1]]]
            for t in ts:
                if t in K:
                    for c in K[t]: out.append((c,{t+"."+c}))
                else: out.append(("*",{t+".*"}))
    # merge same names
    m=collections.OrderedDict()
    for n,s in out: m.setdefault(n,set()).update(s)
    names=list(m)
    if collist: tn=collist if len(collist)==len(names) else names
    elif tgtK is not None and len(tgtK)==len(names): tn=tgtK
    else: tn=names
    return tuple(sorted((s,"s.tgt."+tn[i]) for i,n in enumerate(names) for s in m[n]))
if __name__=="__main__":
    jobs=[];meta=[]
    shapes=[[("s.a",None)],[("s.a","x"),("s.b","y")]]
    itemsets=[[("col","c1")],[("col","c1"),("col","c2")],[("star",None)],[("qstar",0)],[("qstar",0),("qstar",1)],[("col","c1"),("star",None)]]
    colsets={"s.a":[None,["c1","k"],["k"],["c1","c2"]],"s.b":[None,["c2","k"],["c1","z"]]}
    for shape in shapes:
        for items in itemsets:
            if len(shape)==1 and any(i[0]=="qstar" and i[1]==1 for i in items): continue
            for ka in colsets["s.a"]:
                for kb in (colsets["s.b"] if len(shape)>1 else [None]):
                    for tk in (None,["p","q"],["p"]):
                        for cl in (None,["m1"],["m1","m2"]):
                            K={}
                            if ka: K["s.a"]=ka
                            if kb: K["s.b"]=kb
                            md=dict(K)
                            if tk: md["s.tgt"]=tk
                            its=[]
                            for it in items:
                                if it[0]=="col": its.append(it[1])
                                elif it[0]=="star": its.append("*")
                                else: its.append((shape[it[1]][1] or "a")+".*")
                            frm=" JOIN ".join(t+(" "+a if a else "") for t,a in shape)+(" ON x.id = y.id" if len(shape)>1 else "")
                            sql=f"INSERT INTO s.tgt {'('+', '.join(cl)+') ' if cl else ''}SELECT {', '.join(its)} FROM {frm}"
                            jobs.append((sql,md)); meta.append((shape,items,K,tk,cl))
    with ProcessPoolExecutor(16) as ex: res=list(ex.map(run,jobs,chunksize=20))
    bad=collections.Counter(); first={}
    for (sql,md),(shape,items,K,tk,cl),o in zip(jobs,meta,res):
        exp=ref(shape,items,K,tk,cl)
        got=o if isinstance(o,str) else o[2]
        if got!=exp:
            k=(len(shape),tuple(i[0] for i in items),bool(K),tk is not None,cl is not None and len(cl))
            bad[k]+=1; first.setdefault(k,(sql,md,got,exp))
    print("cases",len(jobs),"bad",sum(bad.values()),"classes",len(bad))
    for k,v in sorted(bad.items(),key=lambda x:-x[1])[:25]:
        sql,md,got,exp=first[k]; print(k,v,"\n   ",sql,"|",md,"\n    got",str(got)[:260],"\n    exp",str(exp)[:260])
