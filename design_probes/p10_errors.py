import warnings, time
warnings.simplefilter("ignore")
from sqllineage.runner import LineageRunner
def t(sql, d="ansi", **kw):
    t0=time.time()
    try:
        r=LineageRunner(sql, dialect=d, **kw); r.source_tables; r.get_column_lineage(); r.to_cytoscape("column"); str(r)
        out="OK"
    except Exception as e:
        out=type(e).__module__+"."+type(e).__name__+": "+str(e)[:120].replace("\n"," ")
    print(repr(sql[:70]), d, "->", out, round(time.time()-t0,2))
for n in (5,10,20,30,40,60):
    t("select * from "+"("*n+"select 1 from t"+")"*n)
    t("select "+"("*n+"a"+")"*n+" from t")
t("select {{ x }} from t"); t("select '{{' from t"); t("select 1 -- {{\n from t"); t("select {# c #} 1 from t"); t("select '{%' from t"); t("select a{b from t")
t("select '{{ x' from t", d="non-validating")
t("insert into t select * from t2 where", d="non-validating")
t("select * from", d="non-validating"); t("selec", d="non-validating"); t("insert into", d="non-validating"); t("with", d="non-validating")
t("merge into t using", d="non-validating"); t("select * from t join", d="non-validating"); t("alter table", d="non-validating"); t("update", d="non-validating")
t("select swap_partitions_between_tables('a')", d="non-validating")
t("insert into t values (", d="non-validating"); t("select (", d="non-validating"); t(")", d="non-validating"); t("'", d="non-validating")
t("create table a like", d="non-validating"); t("insert into a(b) select", d="non-validating")
t("select * from 1", d="non-validating"); t("select * from t1 join 1", d="non-validating"); t("insert into 1 select 1", d="non-validating")
t("copy", d="non-validating"); t("with a as (select 1)", d="non-validating"); t("with a as (select 1) select", d="non-validating")
