import warnings, sys, os
warnings.simplefilter("ignore")
from sqllineage.runner import LineageRunner
from sqllineage.core.metadata.dummy import DummyMetaDataProvider
def show(sql, dialect="ansi", md=None, **kw):
    try:
        r = LineageRunner(sql, dialect=dialect, metadata_provider=DummyMetaDataProvider(md) if md else DummyMetaDataProvider(), **kw)
        print("SQL:", sql, "|", dialect)
        print("  src", [str(x) for x in r.source_tables], "tgt", [str(x) for x in r.target_tables], "mid", [str(x) for x in r.intermediate_tables])
        for p in r.get_column_lineage():
            print("   ", " -> ".join(str(c) for c in p))
        return r
    except Exception as e:
        print("SQL:", sql, "|", dialect, "EXC", type(e).__name__, str(e)[:200])
print("HASHSEED", os.environ.get("PYTHONHASHSEED"))
# C03 rename
show("insert into b select * from a; insert into d select * from c; rename table b to b2, d to d2", dialect="mysql")
show("insert into b select * from a; rename table b to c, c to d", dialect="mysql")
show("insert into b select * from a; alter table b rename to c")
show("insert into b select * from a; drop table b")
show("insert into b select * from a; drop table a")
show("create table b (x int); drop table b")
show("select * from a; drop table a")
# C04
show("insert into t1 select c from a join b on a.id=b.id; insert into t2 select c from d join e on d.id=e.id")
show("insert into t1 select c from s.a join s.b on a.id=b.id; insert into t2 select c from s.d join s.e on d.id=e.id", md={"s.a":["id","c"],"s.b":["id"],"s.d":["id"],"s.e":["id","c"]})
show("create table s.m as select x, y from s.a; insert into s.t select * from s.m", md={"s.a":["x","y"]})
show("create table s.m as select x, y from s.a; insert into s.t select * from s.m")
