import warnings, sys
warnings.simplefilter("ignore")
from sqllineage.runner import LineageRunner
from sqllineage.core.metadata.dummy import DummyMetaDataProvider
def show(sql, dialect="ansi", md=None, **kw):
    try:
        r = LineageRunner(sql, dialect=dialect, metadata_provider=DummyMetaDataProvider(md) if md else DummyMetaDataProvider(), **kw)
        print("SQL:", sql, "|", dialect)
        print("  src", [str(x) for x in r.source_tables], "tgt", [str(x) for x in r.target_tables], "mid", [str(x) for x in r.intermediate_tables])
        for p in r.get_column_lineage():
            print("   ", " -> ".join(str(c) for c in p))
    except Exception as e:
        print("SQL:", sql, "|", dialect, "EXC", type(e).__name__, str(e)[:200])
# C01
show("insert into t1 select a.x from t2 a join t3 b on a.id=b.id, t4 c")
show("insert into t1 select a.x from t2 a, t3 b join t4 c on b.id=c.id")
show("insert into t1 select (select max(y) from t5) as m, x from t2")
show("insert into t1 select x from t2 group by x having count(*) > (select max(y) from t5)")
show("insert into t1 select x from t2 where x > (select max(y) from t5)")
show("insert into t1 select x from t2 where exists (select 1 from t5 where t5.y = t2.x)")
show("insert into t1 select x from t2 where x in (select y from t5) and x in (select y from t6)")
# C02
show("insert into t1 select 1 as a, x as b from t2 union all select y, z from t3")
show("insert into t1 select x as a, 1 as b from t2 union all select y, z from t3")
show("insert into t1 select t.x from s1.t t join s2.t u on t.id = u.id")
show("insert into t1 select u.x from s1.t join s2.t u on t.id = u.id")
show("insert into s.t1 (c1, c2) select x, y from s.t2", md={"s.t1":["k1","k2"]})
show("insert into s.t1 select x, y from s.t2", md={"s.t1":["k1","k2"]})
