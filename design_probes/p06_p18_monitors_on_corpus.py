import json, warnings, collections, glob, sys
warnings.simplefilter("ignore")
from concurrent.futures import ProcessPoolExecutor
def check(rec):
    from sqllineage.runner import LineageRunner
    from sqllineage.core.metadata.dummy import DummyMetaDataProvider
    from sqllineage.core.models import Table, Path, SubQuery, Column
    import networkx as nx
    out=[]
    try:
        r=LineageRunner(rec["sql"],dialect=rec["dialect"],metadata_provider=DummyMetaDataProvider(rec.get("md")))
        src=set(r.source_tables); tgt=set(r.target_tables); mid=set(r.intermediate_tables)
        paths=r.get_column_lineage()
        tg=r._sql_holder.table_lineage_graph
        for p in paths:
            if len(p)<2: out.append("I1-one-node"); continue
            last=p[-1]
            if not (isinstance(last.parent,(Table,Path)) and (last.parent in tgt or last.parent in mid)): out.append("I4-last-not-target")
            for c in p:
                if isinstance(c.parent,(Table,Path)) and c is not last:
                    if c.parent not in src and c.parent not in mid: out.append("I5-src-table-absent")
                    elif c.parent!=last.parent and not (tg.has_node(c.parent) and tg.has_node(last.parent) and nx.has_path(tg,c.parent,last.parent)): out.append("I5-no-table-path")
        for lvl in ("table","column"):
            cy=r.to_cytoscape(lvl)
            ids=[e["data"]["id"] for e in cy if "source" not in e["data"]]
            if len(ids)!=len(set(ids)): out.append(f"X1-dup-ids-{lvl}")
            idset=set(ids)
            for e in cy:
                d=e["data"]
                if "source" in d and (d["source"] not in idset or d["target"] not in idset): out.append(f"X2-dangling-edge-{lvl}")
                if "parent" in d and d["parent"] not in idset: out.append(f"X2-dangling-parent-{lvl}")
        g=r._sql_holder.graph
        for n in list(g.nodes):
            if n not in g: out.append("I6-node-not-retrievable")
    except Exception as e:
        out.append("EXC-"+type(e).__name__)
    return rec["id"],rec["dialect"],sorted(set(out))
if __name__=="__main__":
    recs=[r for r in json.load(open("/var/tmp/vf_corpus.json")) if r["fluff"]]
    for f in sorted(glob.glob("/repo/sqllineage/data/tpcds/*.sql")): recs.append({"id":"tpcds/"+f[-11:],"sql":open(f).read(),"dialect":"ansi","md":None})
    with ProcessPoolExecutor(16) as ex: res=list(ex.map(check,recs,chunksize=8))
    cnt=collections.Counter(); ex_=collections.defaultdict(list)
    for i,d,o in res:
        for k in o: cnt[k]+=1; ex_[k].append(i)
    print(len(res),"items"); 
    for k,v in cnt.most_common(): print(k,v,ex_[k][:4])
