import itertools, warnings, collections
warnings.simplefilter("ignore")
from concurrent.futures import ProcessPoolExecutor
def pairs_full(sql, md, d="ansi"):
    from sqllineage.runner import LineageRunner
    from sqllineage.core.metadata.dummy import DummyMetaDataProvider
    r=LineageRunner(sql,dialect=d,metadata_provider=DummyMetaDataProvider(md))
    def nm(c): return str(c) if c.parent is not None else c.raw_name+"?"+"|".join(str(x) for x in c.parent_candidates)
    paths=[[nm(c) for c in p] for p in r.get_column_lineage()]
    return paths, [str(t) for t in r.target_tables]+[str(t) for t in r.intermediate_tables]
def tgt_cols(sql, md):
    # columns of the target as the single-statement analysis sees them
    from sqllineage.runner import LineageRunner
    from sqllineage.core.metadata.dummy import DummyMetaDataProvider
    r=LineageRunner(sql,metadata_provider=DummyMetaDataProvider(md)); r._eval()
    h=r._stmt_holders[0]; w=list(h.write)
    return (str(w[0]), [c.raw_name for c in h.get_table_columns(w[0])]) if w else (None,[])
def compose(stmts, md):
    md0=bool(md); md=dict(md or {}); edges=set(); 
    for s in stmts:
        paths,_=pairs_full(s, md)
        for p in paths:
            for a,b in zip(p,p[1:]): edges.add((a,b))
            if len(p)==1: edges.add((p[0],p[0]))
        t,cols=tgt_cols(s, md)
        if t and cols and md0: md[t]=cols
    import networkx as nx
    g=nx.DiGraph(); g.add_edges_from((a,b) for a,b in edges if a!=b)
    roots=[n for n in g if g.in_degree(n)==0]; leaves=[n for n in g if g.out_degree(n)==0]
    out=set()
    for r_ in roots:
        for l in leaves:
            for p in nx.all_simple_paths(g,r_,l): out.add(tuple(p))
    return out
def job(args):
    stmts,md=args
    try:
        script=";\n".join(stmts)
        act=set(tuple(p) for p in pairs_full(script, md)[0])
        exp=compose(stmts, md)
        # ignore paths that end in a subquery in expected (compose from per-stmt paths already excludes)
        return stmts, md, sorted(act-exp), sorted(exp-act)
    except Exception as e: return stmts, md, "EXC "+type(e).__name__+str(e)[:80], None
if __name__=="__main__":
    P1=["insert into s.m select x, y from s.a","create table s.m as select x as p, y as q from s.a","insert into s.m select * from s.a","insert into s.m select a.x, b.y from s.a a join s.b b on a.id=b.id","insert into s.m select x, y from s.a a join s.b b on a.id=b.id","create view s.m as select x+y as z, x from s.a"]
    P2=["insert into s.t select * from s.m","insert into s.t select x from s.m","insert into s.t select m.x, c.w from s.m m join s.c c on m.id=c.id","insert into s.t select x, w from s.m m join s.c c on m.id=c.id","insert into s.t select p, z from s.m","insert into s.t select x, y from s.c c join s.d d on c.id=d.id"]
    P3=[None,"insert into s.u select * from s.t","insert into s.u select x from s.t join s.m on t.x=m.x"]
    MD=[None,{"s.a":["id","x","y"],"s.b":["id","y2"]},{"s.zzz":["q"]},{"s.a":["id","x","y"],"s.c":["id","w"]}]
    jobs=[]
    for a,b,c,md in itertools.product(P1,P2,P3,MD):
        jobs.append(([a,b]+([c] if c else []), md))
    with ProcessPoolExecutor(16) as ex: res=list(ex.map(job,jobs,chunksize=8))
    bad=[r for r in res if r[2] or r[3]]
    print("scripts",len(res),"bad",len(bad))
    seen=set()
    for st,md,x,m in bad:
        k=(st[0][:30],st[1][:40],md is not None)
        if (st[0],st[1]) in seen: continue
        seen.add((st[0],st[1]))
        print("--",st,"| md" ,md); print("   extra",str(x)[:300]); print("   missing",str(m)[:300])
        if len(seen)>12: break
