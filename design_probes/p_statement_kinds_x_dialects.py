import warnings, collections
warnings.simplefilter("ignore")
from concurrent.futures import ProcessPoolExecutor
STM={
 "update_set_lit":"UPDATE tgt SET c1 = 1 WHERE c2 = 2",
 "update_from":"UPDATE tgt SET c1 = t1.c1 FROM t1 WHERE tgt.id = t1.id",
 "update_from_join":"UPDATE tgt SET c1 = a.c1 FROM t1 a JOIN t2 b ON a.id = b.id WHERE tgt.id = a.id",
 "update_from_sub":"UPDATE tgt SET c1 = a.c1 FROM (SELECT c1, id FROM t1) a WHERE tgt.id = a.id",
 "update_where_sub":"UPDATE tgt SET c1 = 1 WHERE c2 IN (SELECT c2 FROM t1)",
 "update_set_sub":"UPDATE tgt SET c1 = (SELECT max(c1) FROM t1)",
 "merge_table":"MERGE INTO tgt USING t1 ON tgt.id = t1.id WHEN MATCHED THEN UPDATE SET tgt.c1 = t1.c1 WHEN NOT MATCHED THEN INSERT (id, c1) VALUES (t1.id, t1.c1)",
 "merge_alias":"MERGE INTO tgt a USING t1 b ON a.id = b.id WHEN MATCHED THEN UPDATE SET a.c1 = b.c1",
 "merge_sub":"MERGE INTO tgt a USING (SELECT id, c1 FROM t1 JOIN t2 ON t1.k = t2.k) b ON a.id = b.id WHEN MATCHED THEN UPDATE SET a.c1 = b.c1",
 "select_into":"SELECT c1 INTO tgt FROM t1",
 "select_into_join":"SELECT a.c1 INTO tgt FROM t1 a JOIN t2 b ON a.id = b.id",
 "ctas_paren":"CREATE TABLE tgt AS (SELECT c1 FROM t1)",
 "insert_paren":"INSERT INTO tgt (SELECT c1 FROM t1)",
 "insert_values":"INSERT INTO tgt VALUES (1, 2)",
 "insert_values_sub":"INSERT INTO tgt VALUES ((SELECT max(c1) FROM t1), 2)",
 "create_like":"CREATE TABLE tgt LIKE t1",
 "delete":"DELETE FROM tgt WHERE c1 IN (SELECT c1 FROM t1)",
 "truncate":"TRUNCATE TABLE tgt",
 "view_cols":"CREATE VIEW tgt (x1) AS SELECT c1 FROM t1",
 "with_insert":"WITH c AS (SELECT c1 FROM t1) INSERT INTO tgt SELECT c1 FROM c",
 "insert_with":"INSERT INTO tgt WITH c AS (SELECT c1 FROM t1) SELECT c1 FROM c",
 "intersect":"INSERT INTO tgt SELECT c1 FROM t1 INTERSECT SELECT c1 FROM t2",
 "except":"INSERT INTO tgt SELECT c1 FROM t1 EXCEPT SELECT c1 FROM t2",
 "drop":"DROP TABLE tgt","rename":"ALTER TABLE tgt RENAME TO t9",
}
def run(job):
    k,d=job
    from sqllineage.runner import LineageRunner
    try:
        r=LineageRunner(STM[k],dialect=d)
        return k,d,(tuple(map(str,r.source_tables)),tuple(map(str,r.target_tables)),tuple(sorted((str(p[0]),str(p[-1])) for p in r.get_column_lineage())))
    except Exception as e: return k,d,"EXC:"+type(e).__name__
if __name__=="__main__":
    from sqllineage.runner import LineageRunner
    ds=sum(LineageRunner.supported_dialects().values(),[])
    with ProcessPoolExecutor(16) as ex: res=list(ex.map(run,[(k,d) for k in STM for d in ds],chunksize=10))
    by=collections.defaultdict(lambda: collections.defaultdict(list))
    for k,d,o in res: by[k][o if isinstance(o,str) else str(o)].append(d)
    for k in STM:
        print("==",k,"|",STM[k][:70])
        for o,dl in sorted(by[k].items(),key=lambda x:-len(x[1])): print("   ",len(dl),o[:200],"" if len(dl)>6 else dl)
