import sys, types, warnings
warnings.simplefilter("ignore")
import sqllineage.runner, sqllineage.cli, sqllineage.drawing
import inspect
mods=[m for n,m in sys.modules.items() if n.startswith("sqllineage")]
for m in sorted(mods,key=lambda m:m.__name__):
    for k,v in vars(m).items():
        if k.startswith("__"): continue
        if isinstance(v,(types.ModuleType,types.FunctionType,type)) :
            if isinstance(v,type) and v.__module__==m.__name__:
                for ck,cv in vars(v).items():
                    if ck.startswith("__"): continue
                    if isinstance(cv,(list,dict,set)) : print("CLASSATTR",m.__name__,v.__name__,ck,type(cv).__name__,str(cv)[:80])
            continue
        if isinstance(v,(str,int,float,bool,tuple,type(None))): continue
        if getattr(v,"__module__","").startswith(("typing","collections.abc")): continue
        print("GLOBAL",m.__name__,k,type(v).__name__,str(v)[:80])
from sqllineage.runner import LineageRunner
print("default provider:", inspect.signature(LineageRunner.__init__).parameters["metadata_provider"].default, vars(inspect.signature(LineageRunner.__init__).parameters["metadata_provider"].default))
