"""Throwaway prototype #2: column-level reference semantics for a core grammar, deviation-bounded."""
import sys, time, warnings, collections, re
warnings.simplefilter("ignore")
from p01_tables_enum import Chooser, explore

class Rel:  # relation in scope
    def __init__(s, kind, name, alias, cols=None, table=None):
        s.kind=kind; s.name=name; s.alias=alias; s.cols=cols; s.table=table  # cols: dict outname -> set(src) for derived; None for base
    def qualifiers(s):
        q=set()
        if s.alias: q.add(s.alias)
        elif s.kind=="base": q.add(s.name.split(".")[-1]); q.add(s.name)
        else: q.add(s.name)
        return q

class Ctx:
    def __init__(s,ch): s.ch=ch; s.nt=0; s.na=0; s.nc=0; s.ctes={}
    def base(s): s.nt+=1; return f"t{s.nt}"
    def alias(s): s.na+=1; return f"a{s.na}"

def FQ(t): return t if "." in t else "<default>."+t

def rel(ctx, depth):
    opts=["base","base_alias","qualified_alias","qualified"]
    if depth>0: opts+=["derived","derived_union","derived_star"]
    if ctx.ctes: opts+=["cte","cte_alias"]
    k=opts[ctx.ch.choose(len(opts))]
    if k=="base": t=ctx.base(); return t, Rel("base",t,None,table=FQ(t))
    if k=="base_alias": t=ctx.base(); a=ctx.alias(); return f"{t} {a}", Rel("base",t,a,table=FQ(t))
    if k=="qualified_alias": t="s1."+ctx.base(); a=ctx.alias(); return f"{t} AS {a}", Rel("base",t,a,table=t)
    if k=="qualified": t="s1."+ctx.base(); return t, Rel("base",t,None,table=t)
    if k=="derived":
        sql,cols=select(ctx,depth-1); a=ctx.alias(); return f"({sql}) {a}", Rel("sub",a,a,cols=cols)
    if k=="derived_star":
        t=ctx.base(); a=ctx.alias(); return f"(SELECT * FROM {t}) {a}", Rel("sub",a,a,cols={"*":{(FQ(t),"*")}})
    if k=="derived_union":
        s1,c1=select(ctx,depth-1); s2,c2=select(ctx,depth-1); a=ctx.alias()
        return f"({s1} UNION ALL {s2}) {a}", Rel("sub",a,a,cols=union_cols(c1,c2))
    name=sorted(ctx.ctes)[-1]
    if k=="cte": return name, Rel("sub",name,None,cols=ctx.ctes[name])
    a=ctx.alias(); return f"{name} {a}", Rel("sub",name,a,cols=ctx.ctes[name])

def union_cols(c1,c2):
    out={}
    k1=list(c1); k2=list(c2)
    for i,n in enumerate(k1):
        out[n]=set(c1[n]) | (set(c2[k2[i]]) if i<len(k2) else set())
    return out

def from_(ctx, depth):
    shapes=["one","join","comma","left_using","join3"]
    k=shapes[ctx.ch.choose(len(shapes))]
    n={"one":1,"join":2,"comma":2,"left_using":2,"join3":3}[k]
    rs=[rel(ctx,depth) for _ in range(n)]
    sq=[r[0] for r in rs]; scope=[r[1] for r in rs]
    if k=="one": sql=sq[0]
    elif k=="join": sql=f"{sq[0]} JOIN {sq[1]} ON 1=1"
    elif k=="comma": sql=f"{sq[0]}, {sq[1]}"
    elif k=="left_using": sql=f"{sq[0]} LEFT JOIN {sq[1]} USING (id)"
    else: sql=f"{sq[0]} JOIN {sq[1]} ON 1=1 LEFT JOIN {sq[2]} ON 1=1"
    return sql, scope

def resolve(scope, qual, name):
    """return set of sources: (table, col) resolved, or ('?', col, candidates)"""
    if qual is not None:
        for r in scope:
            if qual in r.qualifiers():
                return expand(r,name)
        return {(FQ(qual),name)}
    if len(scope)==1: return expand(scope[0],name)
    known=[r for r in scope if r.cols is not None and (name in r.cols)]
    if known:
        out=set()
        for r in known: out|=expand(r,name)
        return out
    cands=tuple(sorted((r.table if r.kind=="base" else (r.alias or r.name)) for r in scope))
    return {("?",name,cands)}

def expand(r,name):
    if r.kind=="base": return {(r.table,name)}
    if name in r.cols: return set(r.cols[name])
    if "*" in r.cols:  # derived select * : column comes from the star's tables
        return {(t,name) for (t,_) in r.cols["*"]}
    return {("!",(r.alias or r.name),name)}  # reference to unknown column of subquery: stays at subquery

def colref(ctx, scope):
    # choose qualifier style and column
    r=scope[ctx.ch.choose(len(scope))] if len(scope)>1 else scope[0]
    style=["unq","qual"][ctx.ch.choose(2)]
    ctx.nc+=1
    # pick a column the relation exposes
    if r.cols is not None and "*" not in r.cols: name=sorted(r.cols)[0]
    else: name=f"c{ctx.nc}"
    if style=="qual":
        q=sorted(r.qualifiers(),key=len)[0]
        return f"{q}.{name}", resolve(scope,q,name), name
    return name, resolve(scope,None,name), name

def item(ctx, scope):
    kinds=["col","alias","func","arith","case","cast","window","literal","star","qstar","coalesce2"]
    k=kinds[ctx.ch.choose(len(kinds))]
    if k=="col": s,src,n=colref(ctx,scope); return s,n,src
    if k=="alias": s,src,n=colref(ctx,scope); return f"{s} AS x{ctx.nc}",f"x{ctx.nc}",src
    if k=="func": s,src,n=colref(ctx,scope); return f"max({s}) AS x{ctx.nc}",f"x{ctx.nc}",src
    if k=="arith":
        s1,a,_=colref(ctx,scope); s2,b,_=colref(ctx,scope); return f"{s1} + {s2} AS x{ctx.nc}",f"x{ctx.nc}",a|b
    if k=="coalesce2":
        s1,a,_=colref(ctx,scope); s2,b,_=colref(ctx,scope); return f"coalesce({s1}, {s2}, 0) AS x{ctx.nc}",f"x{ctx.nc}",a|b
    if k=="case":
        s1,a,_=colref(ctx,scope); s2,b,_=colref(ctx,scope); return f"CASE WHEN {s1} > 0 THEN {s2} ELSE 0 END AS x{ctx.nc}",f"x{ctx.nc}",a|b
    if k=="cast": s,src,n=colref(ctx,scope); return f"CAST({s} AS int) AS x{ctx.nc}",f"x{ctx.nc}",src
    if k=="window":
        s1,a,_=colref(ctx,scope); s2,b,_=colref(ctx,scope); return f"sum({s1}) OVER (PARTITION BY {s2}) AS x{ctx.nc}",f"x{ctx.nc}",a|b
    if k=="literal": ctx.nc+=1; return f"1 AS x{ctx.nc}",f"x{ctx.nc}",set()
    if k=="star":
        return "*","*",star_src(scope)
    if k=="qstar":
        r=scope[0]; q=sorted(r.qualifiers(),key=len)[0]; return f"{q}.*","*",star_src([r])

def star_src(scope):
    out={}
    for r in scope:
        if r.kind=="base": out.setdefault("*",set()).add((r.table,"*"))
        else:
            for n,s in r.cols.items(): out.setdefault(n,set()).update(s)
    return ("STAR",out)

def select(ctx, depth):
    fsql, scope = from_(ctx, depth)
    n=1+ctx.ch.choose(3)
    sqls=[]; cols={}
    for i in range(n):
        s,name,src=item(ctx,scope)
        sqls.append(s)
        if isinstance(src,tuple) and src[0]=="STAR":
            for nn,ss in src[1].items(): cols.setdefault(nn,set()).update(ss)
        else: cols.setdefault(name,set()).update(src)  # duplicate names merge
    return f"SELECT {', '.join(sqls)} FROM {fsql}", cols

def query(ctx, depth):
    opts=["select","union","with"]
    k=opts[ctx.ch.choose(len(opts))]
    if k=="select": return select(ctx,depth)
    if k=="union":
        s1,c1=select(ctx,depth); s2,c2=select(ctx,depth); return f"{s1} UNION ALL {s2}", union_cols(c1,c2)
    b,c=select(ctx,max(depth-1,0)); ctx.ctes["cte1"]=c
    s,cc=select(ctx,depth); return f"WITH cte1 AS ({b}) {s}", cc

def stmt(ch, depth):
    ctx=Ctx(ch)
    kinds=["insert","ctas","insert_cols"]
    k=kinds[ch.choose(len(kinds))]
    q,cols=query(ctx,depth)
    if k=="insert": sql=f"INSERT INTO tgt {q}"
    elif k=="ctas": sql=f"CREATE TABLE tgt AS {q}"
    else:
        names=[f"k{i}" for i in range(len(cols))]
        sql=f"INSERT INTO tgt ({', '.join(names)}) {q}"
        cols={names[i]:v for i,(n,v) in enumerate(cols.items())}
    exp=set()
    for n,srcs in cols.items():
        for s in srcs:
            if s[0]=="?": exp.add((s[1]+"?"+"|".join(s[2]), "<default>.tgt."+n))
            elif s[0]=="!": exp.add((s[1]+"."+s[2], "<default>.tgt."+n))
            else: exp.add((s[0]+"."+s[1], "<default>.tgt."+n))
    return sql, exp

def run(args):
    sql,exp=args
    from sqllineage.runner import LineageRunner
    try:
        r=LineageRunner(sql)
        act=set()
        for p in r.get_column_lineage():
            s,t=p[0],p[-1]
            if len(p)==1: act.add(("<none>",str(t))); continue
            ss=str(s) if s.parent is not None else s.raw_name+"?"+"|".join(str(c) for c in s.parent_candidates)
            act.add((ss,str(t)))
        return sql,exp,act,None
    except Exception as e:
        return sql,exp,None,type(e).__name__+": "+str(e)[:80]

if __name__=="__main__":
    from concurrent.futures import ProcessPoolExecutor
    bound=int(sys.argv[1]); depth=int(sys.argv[2])
    seen={}
    for trace,(sql,exp) in explore(lambda ch: stmt(ch,depth), bound):
        seen.setdefault(sql,(sql,exp))
    t=time.time()
    with ProcessPoolExecutor(16) as ex: res=list(ex.map(run, seen.values(), chunksize=50))
    bad=[r for r in res if r[3] or r[1]!=r[2]]
    print("cases",len(res),"bad",len(bad),"wall",round(time.time()-t,1))
    for sql,exp,act,err in sorted(bad,key=lambda r:len(r[0]))[:int(sys.argv[3]) if len(sys.argv)>3 else 40]:
        print("--",sql); 
        if err: print("   ERR",err)
        else: print("   missing",sorted(exp-act)); print("   extra  ",sorted(act-exp))
