"""harvest (sql, dialect, metadata?) from the test-suite by importing tests with recording helpers"""
import sys, os, json, importlib, pkgutil, inspect, warnings, glob
warnings.simplefilter("ignore")
sys.path.insert(0,"/repo")
import tests.helpers as H
REC=[]
CUR=[None]
def rec_table(sql, source_tables=None, target_tables=None, dialect="ansi", test_sqlfluff=True, test_sqlparse=True):
    REC.append({"id":CUR[0],"kind":"table","sql":sql,"dialect":dialect,"fluff":test_sqlfluff,"parse":test_sqlparse})
def rec_col(sql, column_lineages=None, dialect="ansi", metadata_provider=None, test_sqlfluff=True, test_sqlparse=True):
    md=getattr(metadata_provider,"metadata",None) if metadata_provider is not None else None
    REC.append({"id":CUR[0],"kind":"column","sql":sql,"dialect":dialect,"fluff":test_sqlfluff,"parse":test_sqlparse,"md":md,"has_provider":metadata_provider is not None})
H.assert_table_lineage_equal=rec_table; H.assert_column_lineage_equal=rec_col
import tests.sql
import pytest
mods=[]
for root,_,files in os.walk("/repo/tests/sql"):
    for f in files:
        if f.startswith("test_") and f.endswith(".py"):
            mods.append(os.path.relpath(os.path.join(root,f),"/repo")[:-3].replace("/","."))
errs=0
for m in sorted(mods):
    mod=importlib.import_module(m)
    for name,fn in inspect.getmembers(mod, inspect.isfunction):
        if not name.startswith("test_") or fn.__module__!=m: continue
        marks=getattr(fn,"pytestmark",[])
        params=[mk for mk in marks if mk.name=="parametrize"]
        sig=inspect.signature(fn)
        combos=[{}]
        for mk in params:
            argn=mk.args[0]; vals=mk.args[1]
            names=[a.strip() for a in argn.split(",")] if isinstance(argn,str) else list(argn)
            new=[]
            for c in combos:
                for v in vals:
                    vv=v if len(names)>1 else (v,)
                    d=dict(c); d.update(dict(zip(names,vv))); new.append(d)
            combos=new
        for c in combos:
            CUR[0]=f"{m}::{name}[{','.join(str(v) if isinstance(v,str) else type(v).__name__ for v in c.values())}]"
            try: fn(**c)
            except Exception as e: errs+=1
print("records",len(REC),"from",len(mods),"modules; errors",errs)
import collections
print(collections.Counter(r["dialect"] for r in REC).most_common(12))
json.dump(REC,open("/var/tmp/vf_corpus.json","w"))
