import itertools, warnings, collections
warnings.simplefilter("ignore")
from concurrent.futures import ProcessPoolExecutor
QUOTE={"ansi":['{}','"{}"'],"mysql":['{}','`{}`'],"tsql":['{}','[{}]','"{}"'],"sparksql":['{}','`{}`'],"postgres":['{}','"{}"'],"bigquery":['{}','`{}`']}
BASES=["abc","ABC","AbC"]
def N(sp):
    # reference normalisation of a single part spelling
    if sp[0] in '"`[': return sp[1:-1]
    return sp.lower()
def run(job):
    d,sql=job
    from sqllineage.runner import LineageRunner
    try:
        r=LineageRunner(sql,dialect=d)
        return (sorted(map(str,r.source_tables)),sorted(map(str,r.target_tables)),sorted(map(str,r.intermediate_tables)),sorted((str(p[0]),str(p[-1])) for p in r.get_column_lineage()))
    except Exception as e: return "EXC "+type(e).__name__
if __name__=="__main__":
    jobs=[]; meta=[]
    for d,qs in QUOTE.items():
        sp=[q.format(b) for q in qs for b in BASES]
        for w,rd in itertools.product(sp,repeat=2):
            # table position: write w then read rd
            jobs.append((d,f"insert into {w} select x from src; insert into fin select x from {rd}")); meta.append((d,"table",w,rd))
            # schema position
            jobs.append((d,f"insert into {w}.mid select x from src; insert into fin select x from {rd}.mid")); meta.append((d,"schema",w,rd))
            # column: alias written, read as column
            jobs.append((d,f"insert into mid select x as {w} from src; insert into fin select {rd} from mid")); meta.append((d,"col-alias",w,rd))
            # column: named in select, read later
            jobs.append((d,f"insert into mid select {w} from src; insert into fin select {rd} as y from mid")); meta.append((d,"col-name",w,rd))
            # insert column list
            jobs.append((d,f"insert into mid ({w}) select x from src; insert into fin select {rd} as y from mid")); meta.append((d,"col-list",w,rd))
            # qualifier vs alias
            jobs.append((d,f"insert into fin select {rd}.x from src {w}")); meta.append((d,"alias-qual",w,rd))
            # cte name
            jobs.append((d,f"insert into fin with {w} as (select x from src) select x from {rd}")); meta.append((d,"cte",w,rd))
    with ProcessPoolExecutor(16) as ex: res=list(ex.map(run,jobs,chunksize=30))
    bad=collections.Counter(); first={}; tot=collections.Counter(); rej=collections.Counter()
    for (d,pos,w,rd),o in zip(meta,res):
        tot[pos]+=1
        if isinstance(o,str): rej[(d,pos,o)]+=1; continue
        same=N(w)==N(rd)
        if pos in("table","schema"): chained = len(o[2])==1 and o[0]==["<default>.src"]
        elif pos in("col-alias","col-name","col-list"): chained = any(s.startswith("<default>.src.") and t.startswith("<default>.fin.") for s,t in o[3])
        elif pos=="alias-qual": chained = o[3]==[("<default>.src.x","<default>.fin.x")]
        elif pos=="cte": chained = o[0]==["<default>.src"]
        if chained!=same:
            k=(pos, "quoted" if w[0] in '"`[' else "plain", "quoted" if rd[0] in '"`[' else "plain", "should-chain" if same else "should-not")
            bad[k]+=1; first.setdefault(k,(d,w,rd,o))
    print("jobs",len(jobs),"rejected",sum(rej.values()),"bad",sum(bad.values()))
    for k,v in bad.most_common(): print(k,v,str(first[k])[:230])
    print(rej.most_common(8))
