import glob, time, warnings, json
warnings.simplefilter("ignore")
from sqllineage.runner import LineageRunner
from concurrent.futures import ProcessPoolExecutor
def run(f):
    t=time.time()
    try:
        r=LineageRunner(open(f).read()); n=len(r.get_column_lineage()); r.to_cytoscape("column"); return f[-11:],round(time.time()-t,2),len(r.source_tables),n
    except Exception as e: return f[-11:],round(time.time()-t,2),"EXC",type(e).__name__
if __name__=="__main__":
    fs=sorted(glob.glob("/repo/sqllineage/data/tpcds/*.sql")); t=time.time()
    with ProcessPoolExecutor(16) as ex: res=list(ex.map(run,fs))
    print("wall",round(time.time()-t,1),"sum",round(sum(r[1] for r in res),1),"max",max(r[1] for r in res)); print([r for r in res if r[2]=="EXC" or r[1]>3])
