import sys, threading, time, types, warnings, json
warnings.simplefilter("ignore")
import sqllineage.runner as R, sqllineage.core.metadata_provider as MP, sqllineage.core.metadata.dummy as MD, sqllineage.config as CF
from sqllineage.runner import LineageRunner
from sqllineage.core.metadata.dummy import DummyMetaDataProvider
mon=sys.monitoring; TOOL=mon.DEBUGGER_ID; mon.use_tool_id(TOOL,"mc")
def codes_of(mod):
    out=[]
    def walk(co):
        out.append(co)
        for c in co.co_consts:
            if isinstance(c,types.CodeType): walk(c)
    for v in vars(mod).values():
        if isinstance(v,types.FunctionType) and v.__code__.co_filename==mod.__file__: walk(v.__code__)
        elif isinstance(v,type) and v.__module__==mod.__name__:
            for cv in vars(v).values():
                f=getattr(cv,"__func__",cv); f=getattr(f,"fget",f)
                if isinstance(f,types.FunctionType) and f.__code__.co_filename==mod.__file__: walk(f.__code__)
    return out
ENTRY=[c for m in (R,MP,MD,CF) for c in codes_of(m)]
LINES=[c for c in ENTRY if c.co_name in ("_eval","__enter__","__exit__","register_session_metadata","deregister_session_metadata","get_table_columns")]
print(len(ENTRY),"entry codes",len(LINES),"line codes")
class Sched:
    def __init__(self, progs, prefix):
        self.progs=progs; self.prefix=prefix; self.sems=[threading.Semaphore(0) for _ in progs]
        self.done=[False]*len(progs); self.cur=None; self.points=[]; self.choices=[]; self.obs=[None]*len(progs)
        self.main=threading.Semaphore(0); self.tid2idx={}
    def enabled(self): return [i for i,d in enumerate(self.done) if not d]
    def point(self, me, what):
        en=self.enabled(); order=[me]+[i for i in en if i!=me]
        k=len(self.choices); c=self.prefix[k] if k<len(self.prefix) else 0
        self.points.append((me,len(order),what)); self.choices.append(c)
        nxt=order[c]
        if nxt!=me: self.cur=nxt; self.sems[nxt].release(); self.sems[me].acquire()
    def cb_line(self, code, line):
        idx=self.tid2idx.get(threading.get_ident())
        if idx is not None and self.cur==idx: self.point(idx,(code.co_name,line))
    def cb_start(self, code, off):
        idx=self.tid2idx.get(threading.get_ident())
        if idx is not None and self.cur==idx: self.point(idx,(code.co_name,"start"))
    def run(self):
        def body(i):
            self.tid2idx[threading.get_ident()]=i; self.sems[i].acquire()
            try: self.obs[i]=self.progs[i]()
            except Exception as e: self.obs[i]="EXC "+type(e).__name__+str(e)[:50]
            self.done[i]=True; en=self.enabled()
            if en:
                k=len(self.choices); c=self.prefix[k] if k<len(self.prefix) else 0
                self.points.append((i,len(en),"end")); self.choices.append(c); self.cur=en[c]; self.sems[en[c]].release()
            else: self.main.release()
        ths=[threading.Thread(target=body,args=(i,)) for i in range(len(self.progs))]
        for c in ENTRY: mon.set_local_events(TOOL,c,mon.events.PY_START | (mon.events.LINE if c in LINES else 0))
        mon.register_callback(TOOL,mon.events.LINE,self.cb_line); mon.register_callback(TOOL,mon.events.PY_START,self.cb_start)
        for t in ths: t.start()
        while len(self.tid2idx)<len(ths): time.sleep(0)
        self.cur=0; self.sems[0].release(); self.main.acquire()
        for t in ths: t.join()
        for c in ENTRY: mon.set_local_events(TOOL,c,0)
        return self
def mk(script, md):
    def prog():
        r=LineageRunner(script, metadata_provider=DummyMetaDataProvider(md))
        return json.dumps([[str(x) for x in r.source_tables],[str(x) for x in r.target_tables],[[str(c) for c in p] for p in r.get_column_lineage()]])
    return prog
pA=mk("create table s.m as select x, y from s.a; insert into s.t select * from s.m", {"s.a":["x","y"]})
pB=mk("create table s.m as select p from s.b; insert into s.u select * from s.m", {"s.b":["p"]})
solo=[pA(),pB()]
def explore(bound, cap=400):
    n=0; outs={}; stack=[[]]; t=time.time(); npoints=0
    while stack and n<cap:
        prefix=stack.pop(); s=Sched([pA,pB],prefix).run(); n+=1; npoints=max(npoints,len(s.points))
        ok=tuple(s.obs)==tuple(solo); outs[ok]=outs.get(ok,0)+1
        pre=0
        for i in range(len(s.points)):
            if i>=len(prefix):
                if pre<bound and s.points[i][2]!="end":
                    for alt in range(1,s.points[i][1]): stack.append(s.choices[:i]+[alt])
            if s.choices[i]!=0 and s.points[i][2]!="end": pre+=1
    print("bound",bound,"executions",n,"points/exec",npoints,"outcomes",outs,"t",round(time.time()-t,1),"stack left",len(stack))
explore(0); explore(1); explore(2,cap=300)
