import warnings, sys, os, json, io, itertools, zlib, time
warnings.simplefilter("ignore")
from sqllineage.runner import LineageRunner
from sqllineage.core import models as M
from sqllineage.core.metadata.dummy import DummyMetaDataProvider
ASSIGN = {}
def H(s):
    if s in ASSIGN: return ASSIGN[s]
    return 1000 + zlib.crc32(s.encode()) % 100000
for cls in (M.Schema, M.Table, M.Column):
    cls.__hash__ = lambda self: H(str(self))
M.Path.__hash__ = lambda self: H(self.uri)
M.SubQuery.__hash__ = lambda self: H(self.query_raw)
def dump(sql, dialect="ansi", md=None):
    try:
        r = LineageRunner(sql, dialect=dialect, metadata_provider=DummyMetaDataProvider(md))
        return json.dumps([[str(x) for x in r.source_tables],[str(x) for x in r.target_tables],[str(x) for x in r.intermediate_tables],
           [[str(c) for c in p] for p in r.get_column_lineage()]])
    except Exception as e:
        return "EXC "+type(e).__name__
cases = [
 ("insert into b select * from a; rename table b to c, c to d", "mysql", None, ["<default>.a","<default>.b","<default>.c","<default>.d"]),
 ("insert into s.t select * from s.a join s.b on a.id=b.id", "ansi", {"s.a":["id","x"],"s.b":["id","y"]}, ["s.a","s.b","s.t","s.a.id","s.b.id","s.t.id","s.a.*","s.b.*","s.t.*"]),
 ("insert into t1 select a+b as s from t2 x join t3 y on x.i=y.i", "ansi", None, ["<default>.t1","<default>.t2","<default>.t3","a","b"]),
]
for sql, d, md, names in cases:
    outs = {}
    t=time.time(); n=0
    for perm in itertools.permutations(range(len(names))):
        ASSIGN.clear(); ASSIGN.update({nm: p for nm, p in zip(names, perm)})
        o = dump(sql, d, md); outs.setdefault(o, 0); outs[o]+=1; n+=1
        if n>=720: break
    print(sql, n, "perms", round(time.time()-t,1), "s; distinct outcomes:", len(outs))
    for o,c in outs.items(): print("   ", c, o[:400])
