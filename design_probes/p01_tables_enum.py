"""Throwaway prototype: deviation-bounded enumeration of core SQL + reference table lineage."""
import itertools, sys, time, warnings, collections
warnings.simplefilter("ignore")

class Chooser:
    def __init__(self, prefix):
        self.prefix=list(prefix); self.i=0; self.trace=[]; self.arity=[]
    def choose(self, n, label=""):
        c = self.prefix[self.i] if self.i < len(self.prefix) else 0
        assert c < n, "bad replay"
        self.i+=1; self.trace.append(c); self.arity.append(n); return c

def explore(program, bound):
    """yield result of program for every choice sequence with <= bound non-default choices"""
    stack=[[]]
    while stack:
        prefix=stack.pop()
        ch=Chooser(prefix); res=program(ch)
        yield ch.trace, res
        dev=sum(1 for c in prefix if c)
        if dev>=bound: continue
        for i in range(len(prefix), len(ch.trace)):
            for alt in range(1, ch.arity[i]):
                stack.append(ch.trace[:i]+[alt])

# ---- grammar -----
class Ctx:
    def __init__(self, ch): self.ch=ch; self.nt=0; self.na=0; self.src=set(); self.ctes=[]
    def base(self):
        self.nt+=1; return f"t{self.nt}"
    def alias(self):
        self.na+=1; return f"a{self.na}"

def rel(ctx, depth):
    """returns sql text of a relation and registers sources; choice: base / base alias / schema.base / derived / cte"""
    opts=["base","base_alias","qualified"]
    if depth>0: opts+=["derived","derived_union"]
    if ctx.ctes: opts+=["cte"]
    k=opts[ctx.ch.choose(len(opts),"rel")]
    if k=="base":
        t=ctx.base(); ctx.src.add(f"<default>.{t}"); return t
    if k=="base_alias":
        t=ctx.base(); ctx.src.add(f"<default>.{t}"); return f"{t} {ctx.alias()}"
    if k=="qualified":
        t=ctx.base(); ctx.src.add(f"s1.{t}"); return f"s1.{t} AS {ctx.alias()}"
    if k=="derived":
        return f"({select(ctx, depth-1)}) {ctx.alias()}"
    if k=="derived_union":
        return f"({select(ctx, depth-1)} UNION ALL {select(ctx, depth-1)}) {ctx.alias()}"
    if k=="cte":
        return ctx.ctes[-1]

def from_(ctx, depth):
    shapes=["one","join","comma","join3","left_using","cross","join_comma","comma_join","nested_paren"]
    k=shapes[ctx.ch.choose(len(shapes),"from")]
    r=lambda: rel(ctx, depth)
    if k=="one": return r()
    if k=="join": return f"{r()} JOIN {r()} ON 1=1"
    if k=="comma": return f"{r()}, {r()}"
    if k=="join3": return f"{r()} JOIN {r()} ON 1=1 LEFT JOIN {r()} ON 1=1"
    if k=="left_using": return f"{r()} LEFT JOIN {r()} USING (id)"
    if k=="cross": return f"{r()} CROSS JOIN {r()}"
    if k=="join_comma": return f"{r()} JOIN {r()} ON 1=1, {r()}"
    if k=="comma_join": return f"{r()}, {r()} JOIN {r()} ON 1=1"
    if k=="nested_paren": return f"({r()} JOIN {r()} ON 1=1)"

def where(ctx, depth):
    opts=["none","lit"]
    if depth>0: opts+=["in_sub","exists","scalar_cmp","and_two"]
    k=opts[ctx.ch.choose(len(opts),"where")]
    if k=="none": return ""
    if k=="lit": return " WHERE c1 = 1"
    if k=="in_sub": return f" WHERE c1 IN ({select(ctx, depth-1)})"
    if k=="exists": return f" WHERE EXISTS ({select(ctx, depth-1)})"
    if k=="scalar_cmp": return f" WHERE c1 > ({select(ctx, depth-1)})"
    if k=="and_two": return f" WHERE c1 IN ({select(ctx, depth-1)}) AND c2 IN ({select(ctx, depth-1)})"

def items(ctx, depth):
    opts=["col","star"]
    if depth>0: opts+=["scalar_sub","case_sub"]
    k=opts[ctx.ch.choose(len(opts),"items")]
    if k=="col": return "c1"
    if k=="star": return "*"
    if k=="scalar_sub": return f"c1, ({select(ctx, depth-1)}) AS m"
    if k=="case_sub": return f"CASE WHEN c1 > 0 THEN ({select(ctx, depth-1)}) ELSE 0 END AS m"

def tail(ctx, depth):
    opts=["none","group"]
    if depth>0: opts+=["having_sub"]
    k=opts[ctx.ch.choose(len(opts),"tail")]
    if k=="none": return ""
    if k=="group": return " GROUP BY c1"
    if k=="having_sub": return f" GROUP BY c1 HAVING count(*) > ({select(ctx, depth-1)})"

def select(ctx, depth):
    it=items(ctx, depth)
    f=from_(ctx, depth)
    w=where(ctx, depth)
    t=tail(ctx, depth)
    return f"SELECT {it} FROM {f}{w}{t}"

def query(ctx, depth):
    opts=["select","union","union3","with","with2"]
    k=opts[ctx.ch.choose(len(opts),"query")]
    if k=="select": return select(ctx, depth)
    if k=="union": return f"{select(ctx, depth)} UNION ALL {select(ctx, depth)}"
    if k=="union3": return f"{select(ctx, depth)} UNION {select(ctx, depth)} UNION ALL {select(ctx, depth)}"
    if k=="with":
        body=select(ctx, depth-1 if depth else 0); ctx.ctes.append("cte1")
        return f"WITH cte1 AS ({body}) {select(ctx, depth)}"
    if k=="with2":
        b1=select(ctx, 0); ctx.ctes.append("cte1"); b2=select(ctx, 0); ctx.ctes.append("cte2")
        return f"WITH cte1 AS ({b1}), cte2 AS ({b2}) {select(ctx, depth)}"

def stmt(ch, depth=2):
    ctx=Ctx(ch)
    kinds=["insert","ctas","view","bare","insert_cols"]
    k=kinds[ch.choose(len(kinds),"kind")]
    q=query(ctx, depth)
    tgt={"<default>.tgt"}
    if k=="insert": sql=f"INSERT INTO tgt {q}"
    elif k=="ctas": sql=f"CREATE TABLE tgt AS {q}"
    elif k=="view": sql=f"CREATE VIEW tgt AS {q}"
    elif k=="insert_cols": sql=f"INSERT INTO tgt (x1) {q}"
    else: sql=q; tgt=set()
    return sql, ctx.src, tgt

if __name__=="__main__":
    bound=int(sys.argv[1]); depth=int(sys.argv[2])
    from sqllineage.runner import LineageRunner
    n=0; bad=collections.Counter(); ex={}
    t=time.time(); seen=set()
    for trace,(sql,src,tgt) in explore(lambda ch: stmt(ch,depth), bound):
        if sql in seen: continue
        seen.add(sql); n+=1
        try:
            r=LineageRunner(sql)
            a_src={str(x) for x in r.source_tables}; a_tgt={str(x) for x in r.target_tables}
            if (a_src,a_tgt)!=(src,tgt):
                key=("missing" if src-a_src else "")+("extra" if a_src-src else "")+("tgt" if a_tgt!=tgt else "")
                bad[key]+=1; ex.setdefault(key,[]).append((sql, sorted(src-a_src), sorted(a_src-src), sorted(a_tgt)))
        except Exception as e:
            key="EXC "+type(e).__name__; bad[key]+=1; ex.setdefault(key,[]).append((sql,str(e)[:100]))
    print("cases",n,"time",round(time.time()-t,1),"bad",dict(bad))
    for k,v in ex.items():
        print("==",k,len(v))
        for e in sorted(v,key=lambda e: len(e[0]))[:12]: print("   ",e)
