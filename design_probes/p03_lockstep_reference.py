"""lock-step reference vs implementation for C03 alphabet, depth<=3, plus commutation/idempotence"""
import itertools, time, warnings, collections, sys
warnings.simplefilter("ignore")
from sqllineage.core.holders import SQLLineageHolder
from sqllineage.core.metadata.dummy import DummyMetaDataProvider
from sqllineage.core.parser.sqlfluff.analyzer import SqlFluffLineageAnalyzer
T=["a","b","c"]; prov=DummyMetaDataProvider(); an=SqlFluffLineageAnalyzer(".", "ansi")
item=sys.argv[1] if len(sys.argv)>1 else "*"
alphabet=[]
for r in range(0,4):
    for reads in itertools.combinations(T,r):
        for w in [None]+T:
            if not reads and w is None: continue
            if reads and w: sql=f"INSERT INTO {w} SELECT {item} FROM {', '.join(reads)}"
            elif reads: sql=f"SELECT {item} FROM {', '.join(reads)}"
            else: sql=f"INSERT INTO {w} VALUES (1)"
            alphabet.append((("rw",reads,w),sql))
for t in T: alphabet.append((("drop",t),f"DROP TABLE {t}"))
for x,y in itertools.permutations(T,2): alphabet.append((("ren",x,y),f"ALTER TABLE {x} RENAME TO {y}"))
holders={ev:an.analyze(sql,prov) for ev,sql in alphabet}
FQ=lambda t:"<default>."+t
class Ref:
    """state: nodes (present tables), E edges, S src-only, G tgt-only, W wired(non-table neighbour), U = unconstrained flag"""
    def __init__(s): s.N=set(); s.E=set(); s.S=set(); s.G=set(); s.W=set(); s.U=False
    def step(s,ev):
        if ev[0]=="rw":
            _,reads,w=ev
            s.N|=set(reads); 
            if w: s.N.add(w)
            s.W|=set(reads)            # read => alias edge
            if w and reads and item=="*": s.W.add(w)   # columns attached to target
            if reads and not w: s.S|=set(reads)
            elif w and not reads: s.G.add(w)
            else:
                for r in reads: s.E.add((r,w))
        elif ev[0]=="drop":
            t=ev[1]; s.N.add(t)   # compose adds the node
            deg=any(t in e for e in s.E) or t in s.W
            if not deg:
                s.N.discard(t); s.S.discard(t); s.G.discard(t)
        else:
            _,x,y=ev
            s.N.add(x); s.N.add(y)
            # relabel x->y
            s.E={(y if a==x else a, y if b==x else b) for a,b in s.E}
            hadloop=(y,y) in s.E
            s.E.discard((y,y))
            for tag in (s.S,s.G,s.W):
                if x in tag: tag.discard(x); tag.add(y)
            s.N.discard(x)
            if not (any(y in e for e in s.E) or y in s.W):
                s.N.discard(y); s.S.discard(y); s.G.discard(y)
    def roles(s):
        indeg=collections.Counter(b for a,b in s.E); outdeg=collections.Counter(a for a,b in s.E)
        loops={a for a,b in s.E if a==b}
        src={t for t in s.N if indeg[t]==0 and outdeg[t]>0}|loops|(s.S&s.N)
        tgt={t for t in s.N if outdeg[t]==0 and indeg[t]>0}|loops|(s.G&s.N)
        mid={t for t in s.N if indeg[t]>0 and outdeg[t]>0}-loops
        return tuple(sorted(map(FQ,src))),tuple(sorted(map(FQ,tgt))),tuple(sorted(map(FQ,mid)))
def impl(hist):
    h=SQLLineageHolder.of(prov,*[holders[e] for e in hist])
    return tuple(sorted(map(str,h.source_tables))),tuple(sorted(map(str,h.target_tables))),tuple(sorted(map(str,h.intermediate_tables)))
def ref(hist):
    r=Ref()
    for e in hist: r.step(e)
    return r.roles()
t0=time.time(); n=0; bad=collections.Counter(); first={}
evs=[e for e,_ in alphabet]
for d in (1,2,3):
    for hist in itertools.product(evs,repeat=d):
        n+=1
        try: a=impl(list(hist))
        except Exception as e: a="EXC "+type(e).__name__
        b=ref(hist)
        if a!=b:
            k=tuple(e[0] for e in hist); bad[k]+=1; first.setdefault(k,(hist,a,b))
print("histories",n,"t",round(time.time()-t0,1),"mismatch",sum(bad.values()))
for k,v in sorted(bad.items(),key=lambda x:-x[1])[:15]: print(k,v,first[k])
