import warnings, sys, os, json
warnings.simplefilter("ignore")
from sqllineage.runner import LineageRunner
from sqllineage.core.metadata.dummy import DummyMetaDataProvider
def show(sql, dialect="ansi", md=None, **kw):
    try:
        r = LineageRunner(sql, dialect=dialect, metadata_provider=DummyMetaDataProvider(md) if md else DummyMetaDataProvider(), **kw)
        print("SQL:", sql, "|", dialect)
        print("  src", [str(x) for x in r.source_tables], "tgt", [str(x) for x in r.target_tables], "mid", [str(x) for x in r.intermediate_tables])
        for p in r.get_column_lineage():
            print("   ", " -> ".join(str(c) for c in p))
        return r
    except Exception as e:
        print("SQL:", sql, "|", dialect, "EXC", type(e).__name__, str(e)[:300].replace("\n"," | "))
# C06
show("insert into t1 select 1 as a, x as b from t2")
show("create table t1 (a int, b int)")
show("insert into t1 select a, b from t2 lateral view explode(arr) tt as b", dialect="sparksql")
# C10
show("select '{{' from t")
show("select '{%' from t")
show("select swap_partitions_between_tables('a', 1)", dialect="vertica")
show("select swap_partitions_between_tables('a', 1, 2, 'b')", dialect="vertica")
show("select * from")
show("selec * from t")
show("")
show(";")
show("-- only comment")
show("grant select on t to u")
show("grant select on t to u; insert into a select * from b", silent_mode=True)
show("insert into a select * from b; grant select on t to u", silent_mode=True)
# C16
show('insert into t1 select "MixCol" from t2; insert into t3 select "MixCol" from t1')
show('insert into "MixSch"."MixTab" select x from t2; insert into t3 select x from "MixSch"."MixTab"')
show('insert into t1 select "MixCol" as "OutCol" from t2; insert into t3 select "OutCol" from t1')
show('insert into t1 select t2."MixCol" from t2')
show('insert into `T1` select x from `S`.`T2`', dialect="mysql")
show('insert into [T1] select x from [S].[T2]', dialect="tsql")
