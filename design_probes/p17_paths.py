import os, io, json, tempfile, itertools, time, shutil, warnings
warnings.simplefilter("ignore")
import sqllineage.drawing as D
from pathlib import Path
tmp=tempfile.mkdtemp(prefix="vf17_")
root=os.path.join(tmp,"root"); os.makedirs(os.path.join(root,"child","nested")); os.makedirs(os.path.join(tmp,"root_sibling")); os.makedirs(os.path.join(tmp,"outside"))
static=os.path.join(tmp,"static"); os.makedirs(os.path.join(static,"child"))
def w(p,marker): open(p,"w").write(f"select * from {marker}")
w(os.path.join(root,"in.sql"),"MARK_IN"); w(os.path.join(root,"child","c.sql"),"MARK_IN"); w(os.path.join(root,"child","nested","n.sql"),"MARK_IN")
w(os.path.join(tmp,"root_sibling","s.sql"),"MARK_OUT"); w(os.path.join(tmp,"outside","o.sql"),"MARK_OUT"); w(os.path.join(tmp,"top.sql"),"MARK_OUT")
w(os.path.join(static,"index.html"),"MARK_IN"); w(os.path.join(static,"child","a.js"),"MARK_IN")
D.STATIC_FOLDER=static; D.app.root_path=Path(root)
def req(method,path,body=None):
    st={}
    env={"REQUEST_METHOD":method,"PATH_INFO":path}
    if body is not None:
        b=json.dumps(body).encode(); env["CONTENT_LENGTH"]=str(len(b)); env["wsgi.input"]=io.BytesIO(b)
    try: out=D.app(env,lambda s,h: st.__setitem__("s",s)); return st["s"][:3], b"".join(out)
    except Exception as e: return "EXC", type(e).__name__.encode()
print(req("GET","/")); print(req("GET","/child/a.js")); print(req("GET","/child")); 
segs=["..",".","child","child/nested","../root_sibling","../outside","in.sql",""]
t=time.time(); n=0; leaks=0
os.chdir(tmp)
for L in range(1,5):
    for combo in itertools.product(segs,repeat=L):
        rel="/".join(combo)
        for base in (root+"/", "root/"):
            p=base+rel
            real=os.path.normpath(os.path.join(tmp,p) if not p.startswith("/") else p)
            inside = real==root or real.startswith(root+os.sep)
            for route in ("/script","/directory"):
                key="f" if route=="/script" else "d"
                s,body=req("POST",route,{key:p}); n+=1
                if not inside and s=="200" : leaks+=1
print("requests",n,"leaks",leaks,"t",round(time.time()-t,1))
shutil.rmtree(tmp)
