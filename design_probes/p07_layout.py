import warnings, os, re, time, collections
warnings.simplefilter("ignore")
from sqllineage.runner import LineageRunner
from sqlfluff.core import Linter, FluffConfig
from concurrent.futures import ProcessPoolExecutor
def toks(sql,d):
    p=Linter(config=FluffConfig(overrides={"dialect":d})).parse_string(sql)
    return [(s.raw, s.type, s.is_type("keyword"), s.get_type()) for s in p.tree.raw_segments if s.raw!=""]
def dump(args):
    sql,d=args
    try:
        r=LineageRunner(sql,dialect=d)
        cols=sorted((str(p[0]) if p[0].parent is not None else p[0].raw_name+"?", str(p[-1])) for p in r.get_column_lineage())
        return (sorted(map(str,r.source_tables)),sorted(map(str,r.target_tables)),sorted(map(str,r.intermediate_tables)),cols)
    except Exception as e: return "EXC:"+type(e).__name__+str(e)[:60]
seeds=[("insert into t1 (a, b) select x.c1 as a, max(y.c2) b from t2 x left join (select c2, id from t3 where c3 in (select c3 from t4)) y on x.id = y.id group by x.c1","ansi"),
 ("merge into tgt t using (select id, v from src) s on t.id = s.id when matched then update set t.v = s.v when not matched then insert (id, v) values (s.id, s.v)","ansi"),
 ("with c as (select a from t2 union all select a from t3) insert into t1 select a from c","ansi"),
 ("update t1 set a = t2.b from t2 where t1.id = t2.id","ansi"),
 ("create table t1 as select case when a > 0 then (select max(b) from t3) else 0 end as c, cast(d as int) as d2, sum(e) over (partition by f order by g) as w from t2","ansi"),
 ("insert overwrite table t1 partition (dt='x') select a, b from t2 lateral view explode(arr) tt as b","sparksql"),
 ("select a into t1 from t2 inner join t3 on t2.id = t3.id","tsql"),
 ("copy into t1 from @stage/file.csv","snowflake"),
 ("alter table t1 rename to t2","ansi"),("drop table if exists t1","ansi"),
]
if __name__=="__main__":
    jobs=[]
    for sql,d in seeds:
        tk=toks(sql,d)
        base=(sql,d,"orig",-1)
        jobs.append(base)
        raws=[t[0] for t in tk]
        for i in range(len(raws)+1):
            for kind,ins in (("blk","/* c;c */"),("line","-- c;c\n"),("nl","\n\t ")):
                v="".join(raws[:i])+(" " if kind!="nl" else "")+ins+(" " if kind=="blk" else "")+"".join(raws[i:])
                jobs.append((v,d,kind,i))
        # case flips
        jobs.append(("".join(t[0].upper() if t[1] in("keyword","naked_identifier","word") else t[0] for t in tk),d,"upper",-1))
        jobs.append((sql+";;",d,"semi",-1))
    t=time.time()
    with ProcessPoolExecutor(16) as ex: res=list(ex.map(dump,[(j[0],j[1]) for j in jobs],chunksize=20))
    print("variants",len(jobs),"wall",round(time.time()-t,1))
    orig={}
    for j,o in zip(jobs,res):
        if j[2]=="orig": cur=o; print("ORIG",j[0][:80],"=>",str(o)[:300])
        elif o!=cur: print("  DIFF",j[2],j[3],repr(j[0][:0]),str(o)[:300])
