import sys, threading, time, os
from sqllineage.config import SQLLineageConfig, _SQLLineageConfigLoader
from sqllineage.exceptions import ConfigException
mon=sys.monitoring; TOOL=mon.DEBUGGER_ID
mon.use_tool_id(TOOL,"mc")
codes=[f.__code__ for n,f in vars(_SQLLineageConfigLoader).items() if hasattr(f,"__code__")]
codes+=[_SQLLineageConfigLoader.get_ident.__code__, _SQLLineageConfigLoader.parse_value.__code__]

class Sched:
    def __init__(self, progs, prefix):
        self.progs=progs; self.prefix=prefix; self.sems=[threading.Semaphore(0) for _ in progs]
        self.done=[False]*len(progs); self.cur=None; self.points=[]; self.choices=[]; self.obs=[[] for _ in progs]
        self.main=threading.Semaphore(0); self.tid2idx={}
    def enabled(self): return [i for i,d in enumerate(self.done) if not d]
    def point(self, me):
        # called by running thread at a scheduling point
        en=self.enabled()
        order=[me]+[i for i in en if i!=me] if me in en else en
        k=len(self.choices)
        c=self.prefix[k] if k<len(self.prefix) else 0
        self.points.append((me,len(order))); self.choices.append(c)
        nxt=order[c]
        if nxt!=me:
            self.cur=nxt; self.sems[nxt].release(); self.sems[me].acquire()
    def line_cb(self, code, line):
        idx=self.tid2idx.get(threading.get_ident())
        if idx is not None and self.cur==idx: self.point(idx)
    def run(self):
        def body(i):
            self.tid2idx[threading.get_ident()]=i
            self.sems[i].acquire()
            try: self.progs[i](self.obs[i])
            except Exception as e: self.obs[i].append("EXC "+type(e).__name__)
            self.done[i]=True
            en=self.enabled()
            if en:
                k=len(self.choices); c=self.prefix[k] if k<len(self.prefix) else 0
                self.points.append((i,len(en))); self.choices.append(c)
                self.cur=en[c]; self.sems[en[c]].release()
            else: self.main.release()
        ths=[threading.Thread(target=body,args=(i,)) for i in range(len(self.progs))]
        for c in codes: mon.set_local_events(TOOL,c,mon.events.LINE)
        mon.register_callback(TOOL,mon.events.LINE,self.line_cb)
        for t in ths: t.start()
        while len(self.tid2idx)<len(ths): time.sleep(0)
        self.cur=0; self.sems[0].release(); self.main.acquire()
        for t in ths: t.join()
        mon.register_callback(TOOL,mon.events.LINE,None)
        return self

def p1(obs):
    with SQLLineageConfig(DEFAULT_SCHEMA="s1"):
        obs.append(SQLLineageConfig.DEFAULT_SCHEMA)
    obs.append(SQLLineageConfig.DEFAULT_SCHEMA)
def p2(obs):
    obs.append(SQLLineageConfig.DEFAULT_SCHEMA)
    with SQLLineageConfig(DEFAULT_SCHEMA="s2"):
        obs.append(SQLLineageConfig.DEFAULT_SCHEMA)
    obs.append(SQLLineageConfig.DEFAULT_SCHEMA)

def explore(bound):
    n=0; outcomes={}; stack=[[]]; t=time.time()
    while stack:
        prefix=stack.pop()
        s=Sched([p1,p2],prefix).run(); n+=1
        outcomes.setdefault(str(s.obs),0); outcomes[str(s.obs)]+=1
        # count preemptions in prefix
        for i in range(len(prefix), len(s.points)):
            me,na=s.points[i]
            pre=sum(1 for j,c in enumerate(s.choices[:i]) if c!=0 and not s.done_at(j)) if False else sum(1 for c in s.choices[:i] if c!=0)
            if pre>=bound: continue
            for alt in range(1,na):
                stack.append(s.choices[:i]+[alt])
    print("bound",bound,"executions",n,"outcomes",outcomes,"t",round(time.time()-t,2))
explore(0); explore(1); explore(2)
