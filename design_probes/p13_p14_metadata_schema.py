import warnings, os
warnings.simplefilter("ignore")
from sqllineage.runner import LineageRunner
from sqllineage.config import SQLLineageConfig
from sqllineage.core.metadata.dummy import DummyMetaDataProvider
def d(sql, dialect="ansi", md=None):
    try:
        r=LineageRunner(sql,dialect=dialect, metadata_provider=DummyMetaDataProvider(md))
        return (sorted(map(str,r.source_tables)),sorted(map(str,r.target_tables)),sorted((str(p[0]),str(p[-1])) for p in r.get_column_lineage()))
    except Exception as e: return "EXC "+type(e).__name__+str(e)[:80]
with SQLLineageConfig(DEFAULT_SCHEMA="S9"):
    print(d("select swap_partitions_between_tables('staging', 1, 2, 'target')","vertica"))
    print(d("insert into t1 select t2.x, t7.y from t2"))
    print(d("insert into t1 select x from t2 a join t3 b on a.id=b.id"))
    print(d("merge into t1 using t2 on t1.id=t2.id when matched then update set t1.v=t2.v"))
    print(d("update t1 set a = t2.b from t2"))
    print(d("insert into q.t1 select x from t2; insert into t3 select x from q.t1"))
print(d("select swap_partitions_between_tables('S9.staging', 1, 2, 'S9.target')","vertica"))
print(d("insert into S9.t1 select t2.x, t7.y from S9.t2"))
os.environ["SQLLINEAGE_DEFAULT_SCHEMA"]="envs"
print(d("insert into t1 select t2.x, t7.y from t2"))
print(d("select swap_partitions_between_tables('staging', 1, 2, 'target')","vertica"))
del os.environ["SQLLINEAGE_DEFAULT_SCHEMA"]
# C13
print("--C13")
md={"s.a":["id","x"],"s.b":["id","y"]}
print(d("insert into s.t select x, y, z from s.a join s.b on a.id=b.id", md=md))
print(d("insert into s.t select x, y, z from s.a join s.c on a.id=c.id", md=md))
print(d("insert into s.t select * from s.a", md=md)); print(d("insert into s.t select * from s.c", md=md))
print(d("insert into s.t select a.* , c.* from s.a join s.c on 1=1", md=md))
print(d("insert into s.a select p, q from s.c", md=md))
print(d("insert into s.a (x, id) select p, q from s.c", md=md))
print(d("insert into s.a select p from s.c", md=md))
print(d("create table s.a as select p, q from s.c", md=md))
print(d("insert into t select x from a join b on a.id=b.id", md={"<default>.a":["x"]}))
