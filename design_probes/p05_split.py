import warnings, os
warnings.simplefilter("ignore")
from sqllineage.runner import LineageRunner
from sqllineage.utils.helpers import split
from sqllineage.config import SQLLineageConfig
def s(sql, d="ansi"):
    try:
        r=LineageRunner(sql,dialect=d); st=r.statements()
        print(repr(sql),"->",st, [str(x) for x in r.source_tables],[str(x) for x in r.target_tables])
    except Exception as e: print(repr(sql),"EXC",type(e).__name__,str(e)[:100])
s("insert into a select * from b; insert into c select * from a")
s("insert into a select ';' from b; insert into c select * from a")
s("insert into a select * from b /* ; */; insert into c select * from a")
s("insert into a select * from b -- ; x\n; insert into c select * from a")
s("insert into a select * from b;; ;\n; insert into c select * from a;;")
s("-- c1\n/* c2 */ ; insert into a select * from b; -- trailing\n")
s("insert into a select * from b;/* x */")
s("/* lead */insert into a select * from b")
s("insert into a select * from b; -- only comment ; here")
s("insert into a select \"x;y\" from b; select 1")
s("insert into a select `x;y` from b; select 1", "mysql")
s("insert into a select [x;y] from b; select 1", "tsql")
s("insert into a select $$x;y$$ from b; select 1", "postgres")
s("insert into a select 'it''s;' from b; select 1")
s("insert into a select 'x\\';' from b; select 1", "mysql")
with SQLLineageConfig(TSQL_NO_SEMICOLON=True):
    s("insert into a select * from b\ninsert into c select * from a","tsql")
    s("insert into a select * from b\n-- c ; c\ninsert into c select * from a\n","tsql")
    s("insert into a select ';' from b\ninsert into c select * from a;","tsql")
    s("insert into a select * from b; insert into c select * from a","tsql")
    s("","tsql"); s("-- x","tsql")
