#!/bin/sh
# tools/wave.sh <ID> <round-tag> <srcroot>  - confirm every <srcroot>/<k>/ as seeded/<ID><tag>_<k> and run the property's quick check against it
ID="$1"; TAG="$2"; SRC="$3"
for k in 1 2 3 4; do
  [ -f "$SRC/$k/patch.diff" ] || continue
  NAME="${ID}${TAG}_$k"
  /verif/tools/confirm_mutant.sh "$SRC/$k" "$NAME"
  if [ -d "/verif/seeded/$NAME" ]; then
    SHOW=3 /verif/tools/try_mutant.sh "/verif/seeded/$NAME/patch.diff" "$ID" quick > "/tmp/wave_$NAME.log" 2>&1
    echo "$NAME: own check exit=$? $(grep -c '^VIOLATION' /tmp/wave_$NAME.log) violation lines"
  fi
done
