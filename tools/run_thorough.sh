#!/bin/sh
# run thorough tiers one after another (evidence to a scratch dir when VERIF_EVIDENCE_DIR is set by the caller)
for id in ${@:-C17 C15 C03 C16 C05 C14 C12 C11 C10 C04 C08}; do
  s=$(date +%s)
  ./check $id --tier thorough > /tmp/thorough_$id.log 2>&1
  echo "$id exit=$? $(( $(date +%s) - s ))s :: $(tail -1 /tmp/thorough_$id.log | cut -c1-200)"
done
