#!/bin/sh
# tools/try_mutant.sh <patch.diff> <ID> [tier] [extra check args]  - run a check against a scratch worktree of /repo with a
# patch applied (development aid for the detection demonstrations; evidence/replays go to a scratch dir).
PATCH="$1"; ID="$2"; TIER="${3:-quick}"; shift 3 2>/dev/null
WT=$(mktemp -d /tmp/vmcmut_XXXXXX)
rmdir "$WT"
git -C /repo worktree add -q --detach "$WT" HEAD || exit 2
if [ "$PATCH" != "none" ]; then git -C "$WT" apply "$PATCH" || { echo "PATCH DOES NOT APPLY"; git -C /repo worktree remove --force "$WT"; exit 2; }; fi
OUT=$(mktemp -d /tmp/vmcmutout_XXXXXX)
VERIF_REPO="$WT" VERIF_EVIDENCE_DIR="$OUT/evidence" VERIF_REPLAY_DIR="$OUT/replays" /verif/check "$ID" --tier "$TIER" "$@" > "$OUT/log" 2>&1
RC=$?
echo "== $PATCH $ID $TIER exit=$RC"
grep -c "^VIOLATION" "$OUT/log" | sed 's/^/violation lines: /'
grep -E "^(VIOLATION|  kind|OK|HARNESS|KNOWN)" "$OUT/log" | head -${SHOW:-6}
git -C /repo worktree remove --force "$WT"
rm -rf "$OUT"
exit $RC
