#!/bin/sh
# tools/confirm_mutant.sh <srcdir with patch.diff demo.py meta.json> <name>   -> /verif/seeded/<name>/
# Confirms independently, in a scratch worktree of /repo HEAD: demo passes without the change, the patch applies,
# the test-suite result is the baseline's (425 passed, the same 4 failed), the demo fails with the change.
SRC="$1"; NAME="$2"
WT=$(mktemp -d /tmp/vmcconf_XXXXXX); rmdir "$WT"
git -C /repo worktree add -q --detach "$WT" HEAD || exit 2
cd "$WT" || exit 2
PYTHONPATH="$WT" /venv/bin/python "$SRC/demo.py" > /tmp/conf_$NAME.clean.log 2>&1; CLEAN=$?
if ! git apply "$SRC/patch.diff"; then echo "$NAME: PATCH DOES NOT APPLY"; cd /; git -C /repo worktree remove --force "$WT"; exit 2; fi
PYTHONPATH="$WT" /venv/bin/python "$SRC/demo.py" > /tmp/conf_$NAME.mut.log 2>&1; MUT=$?
/venv/bin/python -m pytest -q -p no:cacheprovider --timeout=900 -n 4 --deselect tests/core/test_drawing.py::test_handler --deselect "tests/sql/column/test_column_select_column_dialect_specific.py::test_tsql_assignment_operator" --deselect tests/sql/table/multiple_statements/test_tmp_table.py::test_create_after_drop --deselect tests/sql/table/test_create.py::test_create_if_not_exist > /tmp/conf_$NAME.tests.log 2>&1
TESTS=$(tail -1 /tmp/conf_$NAME.tests.log)
case "$TESTS" in *error*)  # xdist workers race on the sqlite fixture files: run once more, sequentially
  /venv/bin/python -m pytest -q -p no:cacheprovider --timeout=900 --deselect tests/core/test_drawing.py::test_handler --deselect "tests/sql/column/test_column_select_column_dialect_specific.py::test_tsql_assignment_operator" --deselect tests/sql/table/multiple_statements/test_tmp_table.py::test_create_after_drop --deselect tests/sql/table/test_create.py::test_create_if_not_exist > /tmp/conf_$NAME.tests.log 2>&1
  TESTS=$(tail -1 /tmp/conf_$NAME.tests.log);;
esac
cd /
git -C /repo worktree remove --force "$WT"
echo "$NAME: demo_clean_exit=$CLEAN demo_mutant_exit=$MUT tests: $TESTS"
case "$TESTS" in *"425 passed"*) T_OK=1;; *) T_OK=0;; esac
case "$TESTS" in *failed*) T_OK=0;; esac
if [ "$CLEAN" = 0 ] && [ "$MUT" != 0 ] && [ "$T_OK" = 1 ]; then
  mkdir -p /verif/seeded/$NAME
  cp "$SRC/patch.diff" "$SRC/demo.py" /verif/seeded/$NAME/
  /venv/bin/python - "$SRC/meta.json" /verif/seeded/$NAME/meta.json "$TESTS" <<'PY'
import json,sys
m=json.load(open(sys.argv[1]))
m["confirmed"]={"base":"/repo HEAD at confirmation","demo_exit_without_change":0,"demo_exit_with_change":"non-zero","test_suite_with_change":sys.argv[3].strip()+" (the 4 baseline-failing tests deselected)","how":"tools/confirm_mutant.sh in a scratch worktree"}
m.setdefault("detected_by",[])
json.dump(m,open(sys.argv[2],"w"),indent=1)
PY
  echo "$NAME: KEPT"
else
  echo "$NAME: REJECTED"
fi
rm -f /tmp/conf_$NAME.*.log
