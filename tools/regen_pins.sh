#!/bin/sh
# maintenance: rewrite pins/<ID>.json for the given tier (default quick) - never run by a check
TIER="${1:-quick}"; shift
for id in ${@:-C01 C02 C09 C13}; do
  [ "$TIER" = quick ] && rm -f /verif/pins/$id.json
  /verif/check $id --tier $TIER --regen-pins 2>&1 | tail -1 | cut -c1-250
done
