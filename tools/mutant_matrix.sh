#!/bin/sh
# for every seeded mutant: run the check of its own property; when that stays silent, the checks listed as fallbacks.
# writes lines "<mutant> <check> <exit>" to $OUT (default /tmp/mutant_matrix.txt); PAR mutants at a time
OUT=${OUT:-/tmp/mutant_matrix.txt}
PAR=${PAR:-3}
one() {
  d="$1"; name=$(basename "$d"); prop=$(echo "$name" | sed 's/^\(C[0-9][0-9]\).*/\1/')
  for chk in $prop $(cat "$d/fallback" 2>/dev/null); do
    VERIF_NPROC=${VERIF_NPROC:-5} /verif/tools/try_mutant.sh "$d/patch.diff" $chk quick > /tmp/mm_$name.log 2>&1
    rc=$?
    echo "$name $chk $rc" >> "$OUT"
    [ $rc = 1 ] && break
  done
}
if [ -n "$1" ]; then one "$1"; exit 0; fi
: > "$OUT"
ls -d /verif/seeded/*/ | sed 's:/$::' | OUT="$OUT" xargs -P "$PAR" -n 1 "$0"
echo done >> "$OUT"
