#!/bin/sh
# for every seeded mutant: run the check of its own property; when that stays silent, the checks listed as fallbacks.
# writes lines "<mutant> <check> <exit>" to $OUT (default /tmp/mutant_matrix.txt)
OUT=${OUT:-/tmp/mutant_matrix.txt}
: > "$OUT"
for d in /verif/seeded/*/; do
  name=$(basename "$d"); prop=$(echo "$name" | sed 's/[b]*_.*//')
  hit=0
  for chk in $prop $(cat "$d/fallback" 2>/dev/null); do
    VERIF_NPROC=${VERIF_NPROC:-6} /verif/tools/try_mutant.sh "$d/patch.diff" $chk quick > /tmp/mm_$name.log 2>&1
    rc=$?
    echo "$name $chk $rc" >> "$OUT"
    [ $rc = 1 ] && hit=1 && break
  done
done
echo done >> "$OUT"
