#!/venv/bin/python
"""Regenerates /verif/MANIFEST.json from the table below (so that it is always schema-valid).

usage: /venv/bin/python tools/gen_manifest.py   (validates with python3-vt's jsonschema when available)
"""
import json
import os
import subprocess

HERE = os.path.dirname(os.path.dirname(os.path.abspath(__file__)))

# id -> (engine, level category, technique, level text, level note, design ref)
CHECKS = {
    "C17": (
        "vmc/c17.py (enumeration)",
        "exploration",
        "exhaustive enumeration of request paths (segments x anchors x routes x root settings) against the real WSGI app on a scratch tree",
        "Every path of up to 3 (quick) / 5 (thorough) segments over the 8-letter segment alphabet, in 4 anchorings, "
        "with every file really present in the resolved directory, through every POST route and payload shape, GET, and "
        "3 ways of setting the root, is sent to the real WSGI callable; the oracle is stated on what the response discloses. "
        "Exhaustive for the stated alphabet and bound; this is the right level because containment is a property of path "
        "spellings, a finite combinatorial space once the alphabet is fixed.",
        "Trusted: the lexical containment reference (os.path.normpath, component-wise prefix); no symlinks, "
        "percent-encoding or non-UTF-8 bytes in the alphabet; wsgiref's request parsing is outside the check.",
        "DESIGN.md section 5 C17",
    ),
    "C15": (
        "vmc/c15.py (E2 explicit-state BFS + E3 preemption-bounded scheduler, vmc/sched.py)",
        "model_checking",
        "explicit-state BFS to a fixpoint over the real config object (3 virtual threads via the get_ident seam) + stateless "
        "preemption-bounded exploration of real threads with sys.monitoring line events",
        "(a) breadth-first search to a fixpoint over (virtual thread, operation) transitions executed on the real "
        "_SQLLineageConfigLoader object: open scope with 9 keyword sets (valid, falsy, coercing, unknown, mixed), close, close by "
        "exception, direct assignment, environment flips; in every state every key is read from every thread and compared with a "
        "reference stack model. The fixpoint covers programs of any length and every interleaving at operation granularity. "
        "(b) real threads under a baton scheduler with every line of config.py as a scheduling point: every pair of small programs, "
        "every schedule up to the stated preemption bound; each thread must observe exactly its own reference trace, and a thread "
        "re-using either identifier afterwards must read environment/default values. (c) consumers: for every key the lazy runner reads, every pair "
        "(context in which the runner object is constructed, context in which it is analysed) over {no scope, K=v, K=v'} x {scope ended normally, by exception, "
        "object only touched in the scope, scope still open in another thread}: the analysis must see exactly the configuration of the context it runs in.",
        "Trusted: the reference stack semantics written from the property text; GIL atomicity below line granularity; "
        "thread identity reuse modelled through the get_ident seam. The model is the real object (no separate model to conform).",
        "DESIGN.md section 5 C15",
    ),
    "C03": (
        "vmc/c03.py (E2 explicit-state BFS over the real fold + pipeline conformance)",
        "model_checking",
        "explicit-state BFS over statement histories, each transition executed by the real SQLLineageHolder.of, reference model in lock-step; "
        "every history up to a depth replayed as real SQL through LineageRunner",
        "(a) breadth-first search over histories of abstract statements (every read-set x at-most-one write over 3 tables, DROP, "
        "RENAME: 40 letters; 15 letters on 2 tables, searched to a fixpoint); every transition folds real analyzer holders with the "
        "real SQLLineageHolder.of and compares roles and table edges with a reference state written from the property text; states "
        "deduplicated by (table-level projection of the folded graph, reference state). (b) every history up to depth 2-4 is rendered "
        "to a real script (with and without a terminator after the last statement, so that repeated statements are also repeated character by character) and run through LineageRunner (ansi, mysql RENAME TABLE, tsql, non-validating in thorough); summary, "
        "exported table edges and statement count must equal the reference's.",
        "Trusted: the reference fold (about 60 lines, from the property text; unconstrained where the text is silent: RENAME of a "
        "marked table or onto an existing table); the canonical projection's soundness argument (DESIGN.md C03).",
        "DESIGN.md section 5 C03",
    ),
    "C01": (
        "vmc/c01.py (E1 deviation-bounded explorer vmc/explorer.py + E6 generator/renderer vmc/sqlgen.py + reference vmc/refsem.py)",
        "exploration",
        "deviation-bounded exhaustive enumeration of a core-SQL grammar (all choice sequences with <= D departures from the simplest statement), "
        "real LineageRunner vs. executable reference semantics, per accepting dialect",
        "Every statement the generator can produce with at most 2 (quick) / 3 (thorough) deviations from the default choice at its labelled choice "
        "points (statement kind x query form x FROM shape x relation kind x WHERE form x select-list form x tail, nesting <= 2), rendered under 7 "
        "(quick) / all 28 (thorough) sqlfluff dialects, is analysed by the real runner; sources and target must equal the reference exactly. "
        "Two further balls: one deviation around a union of two derived tables (alias re-use across branches), and two deviations around a path-bearing centre "
        "(COPY t FROM / COPY t TO / COPY (query) TO, INSERT OVERWRITE [LOCAL] DIRECTORY, files read in any FROM slot) under the dialects that have these forms. "
        "Exhaustive for the stated bound; compositions of two/three shapes are exactly where the suite is blind.",
        "Trusted: refsem.tables (reference semantics from the property text, self-tested); sqlfluff as the judge of which dialect accepts a text; "
        "known findings are matched exactly (dialect, text, observed answer) from pins/C01.json.",
        "DESIGN.md section 5 C01",
    ),
    "C02": (
        "vmc/c02.py (E1 + E6 generator with column-level choice points + refsem.columns)",
        "exploration",
        "deviation-bounded exhaustive enumeration of the core-SQL grammar at column level; real LineageRunner vs. executable reference dataflow semantics",
        "Every statement within 3 deviations of the simplest one over statement kind x query form x FROM shape x relation kind x 1-3 select "
        "items x 14 item kinds x reference target x qualified / unqualified / schema-qualified reference x alias reuse (nesting <= 2) is analysed; the set of "
        "end-to-end (source column, target column) pairs - unresolved sources with their candidate lists - must equal the reference exactly. "
        "Dialect fan-out: the D<=1 ball (quick) / D<=2 ball (thorough) and every dialect-specific statement form under 5 / all dialects.",
        "Trusted: refsem.columns (reference semantics from the property text, self-tested against hand-written expectations); sqlfluff as domain "
        "filter; known findings matched exactly from pins/C02.json.",
        "DESIGN.md section 5 C02",
    ),
    "C09": (
        "vmc/c09.py (E1 + E6 generators, differential across dialects)",
        "exploration",
        "deviation-bounded exhaustive enumeration of core statements x all installed dialects + the sqlparse analyzer; differential oracle against ansi",
        "Every core statement of the C01 and C02 generators within 1 (quick) / 2 (thorough) deviations is analysed under all 28 sqlfluff dialects "
        "and the legacy analyzer, and within 2 / 3 deviations under a spread of 11 grammar families; every accepting dialect must give ansi's tables and "
        "column pairs, the legacy analyzer ansi's tables. No reference model is involved.",
        "Trusted: sqlfluff as the judge of acceptance; ansi as the point of comparison (a change that breaks every dialect alike is C01/C02's business); "
        "known per-dialect findings matched exactly from pins/C09.json.",
        "DESIGN.md section 5 C09",
    ),
    "C14": (
        "vmc/c14.py (E1 + E6 generator, re-rendering with qualification; separate interpreters for import-time environment)",
        "exploration",
        "exhaustive product of generated statements and special creation paths x default schema x mechanism; differential oracle against the explicitly qualified re-rendering",
        "Every C01/C02 generator case within 1 (quick) / 2 (thorough) deviations plus 37 special table-creation paths (vertica swap-partition, LIKE/CLONE, "
        "SELECT INTO, DROP/RENAME, EXCHANGE PARTITION, INSERT OVERWRITE, MERGE, UPDATE FROM/JOIN, COPY, correlated select-list subqueries, two-statement "
        "scripts, the legacy analyzer, mixed qualification: another schema's table of the same bare name, qualified old name renamed to a bare new name) x 4 default-schema values (unset, fresh, one already used as qualifier, mixed case) x 3 mechanisms (scoped override, "
        "environment after import, environment before import in a separate interpreter) is analysed twice: with the default, and with no default on the AST "
        "re-rendered with every unqualified table written S.name; tables, column pairs, full paths and both exports must be equal.",
        "Trusted: nothing but the renderer's notion of a table position; differential, so defects common to both sides are C01/C02's business.",
        "DESIGN.md section 5 C14",
    ),
    "C13": (
        "vmc/c13.py (E1 + E6 generator x knowledge-assignment product; refsem.columns with knowledge map)",
        "exploration",
        "deviation-bounded enumeration of statements x exhaustive product of per-table knowledge assignments x provider kind; reference semantics with knowledge map + differential oracles",
        "Every C02-generator statement within 2 (quick) / 3 (thorough) deviations, over schema-qualified tables, is combined with every well-formed "
        "assignment table -> {unknown, known exactly, known superset, known with overlapping names, known but lacking the ambiguous column} and "
        "target -> {unknown, known by position, known superset of the column list}, under the dict-backed provider and SQLAlchemy on in-memory sqlite. "
        "Oracles: table lineage unchanged by metadata; column pairs equal refsem.columns with that knowledge map; a provider knowing only unrelated tables "
        "changes nothing. Further exhaustive parts: (iv) statements with two join scopes (union branch, scalar subquery, EXISTS, CTE) and same-named tables in "
        "2-3 schemas x every assignment {unknown, has c1, has c2, neither} to their tables; (v) every history of 2 (quick) / 3 (thorough) runs from a menu of 9 scripts "
        "(two of them failing half-way) on ONE provider object, each run compared with a fresh provider; (vi) 25 dialect-specific positions of an explicit INSERT "
        "column list x 3 knowledge maps about the target x both providers: answer equals the one without metadata.",
        "Trusted: refsem.columns parameterised by the knowledge map (self-tested); well-formedness filter of DESIGN.md C13; hash seed 0 for outcomes that "
        "depend on set order (explored in C11); known findings matched exactly from pins/C13.json.",
        "DESIGN.md section 5 C13",
    ),
    "C16": (
        "vmc/c16.py (exhaustive spelling x position product)",
        "exploration",
        "exhaustive product of identifier spellings (case pattern x quote style per dialect) x ordered pairs of syntactic positions; reference normalisation as oracle",
        "15 position-pair templates (table, schema, db.schema, column alias / name / column list -> later reference, alias and table name -> qualifier, "
        "CTE name -> FROM, rename operand, derived alias, self read) x every ordered pair of spellings of one base name (3 case patterns x the quote styles "
        "of the dialect) x 7 dialects: the script must treat the two spellings as one entity iff their reference normalisations are equal, and print the "
        "normalised spelling; whole dotted paths inside one pair of backticks vs. the path quoted part by part; plus ==/hash of Schema, Table, Column over every "
        "spelling pair and the laws equal => same hash, equal <=> same printed name, set membership for columns x owners (tables, sub-selects under 0-2 aliases). Fourth round: a column defined under a spelling and read back through * with a provider; the configured default schema as an identifier (bare vs qualified).",
        "Trusted: the reference normalisation N (unquoted -> lower, quoted -> quotes stripped); the per-template chaining evidence.",
        "DESIGN.md section 5 C16",
    ),
    "C08": (
        "vmc/c08.py (E1 + E6 generator around several centres x exhaustive renaming maps)",
        "exploration",
        "deviation-bounded enumeration of statements x exhaustive enumeration of injective renamings of their local names into an adversarial pool + alias toggles; differential oracle",
        "Every generator case around 4 centres (simplest statement, join of two aliased tables, join of two derived tables, CTE read twice) within the "
        "deviation bound that has local names x every injective map of its <= 3 local names into the pool {fresh, bare name of a qualified table read, bare "
        "name of the target, a column name in use, MixedCase, soft keyword} with at most 1 (quick) / 2 (thorough) non-fresh names, excluding maps that make the "
        "statement ambiguous by reference scope rules; + AS toggled, alias added, alias removed; everything once with the default configuration and once under "
        "DEFAULT_SCHEMA=ods. Tables and end-to-end pairs must be unchanged.",
        "Trusted: the reference scope rules that decide which renamings are legal; differential otherwise. Known findings matched by minimal-cause "
        "signatures listed in known_findings.json.",
        "DESIGN.md section 5 C08",
    ),
    "C05": (
        "vmc/c05.py (E1 over script shapes; C03 reference fold + path composition as oracle)",
        "exploration",
        "deviation-bounded exhaustive enumeration of scripts (statements x separators x leading/trailing noise); statements() and lineage vs. combination of single-statement analyses",
        "Every script within 3 (quick) / 4 (thorough) deviations of a single plain INSERT over: 1-3 (1-5) statements from a pool of 12-14 (';' in a literal, in a "
        "quoted identifier, doubled-quote escape, $$ literal, SELECT, DROP, UPDATE, union, readers of an earlier target (INSERT..SELECT, bare query, SELECT *), RENAME, SELECT INTO), 8 separators "
        "(with comments containing ';' and comment-only pieces), 5 leading and 5 trailing variants; ansi, mysql, tsql (+ postgres, sparksql); tsql no-semicolon mode "
        "by environment and by scoped override. statements() must be exactly the statements in order; tables must equal the C03 reference fold of what each "
        "statement reports alone, column pairs the composition of the statements' own column paths.",
        "Trusted: the pool statements analysed alone through the public API (their correctness is C01/C02's business); the C03 reference fold; text normal form "
        "(whitespace collapse, trailing semicolons).",
        "DESIGN.md section 5 C05",
    ),
    "C04": (
        "vmc/c04.py (E1 over script shapes; compositional reference oracle with session knowledge)",
        "exploration",
        "deviation-bounded exhaustive enumeration of 2-4 statement scripts (chain shape x producer / consumption pattern x statement kind x metadata); composition of per-statement reference dataflows as oracle",
        "Every script within 3 (quick) / 4 (thorough) deviations of a two-statement line over chain shape (line of 2/3/4, fan-in, fan-out, diamond) x producer "
        "pattern (8) x consumption pattern per edge (12: all, subset, renamed, *, expression, unqualified / qualified / * over a join with a second table, scalar subquery, "
        "through a derived table, alias shadowing a column of the intermediate table) x producer "
        "kind (INSERT, CTAS, CREATE VIEW) x metadata (none, provider knowing the ultimate sources, provider non-empty but irrelevant, provider + LATERAL_COLUMN_ALIAS_REFERENCE on) is analysed; end-to-end pairs and "
        "the table-level hops of every path must equal the relational composition of the per-statement reference dataflows, statement k evaluated with the knowledge "
        "K_k = provider + columns of tables written by statements < k. Every script run with metadata is run again with the SQLAlchemy provider holding the same knowledge; both providers must give the same observation.",
        "Trusted: refsem.columns and the K_k rule (attribution uses K_k always, * expansion only with a provider in use - DESIGN.md C04); each table written once. "
        "Known findings matched exactly from pins/C04.json.",
        "DESIGN.md section 5 C04",
    ),
    "C06": (
        "vmc/c06.py, vmc/monitored.py, vmc/monitors.py (E8 invariant monitors over the shared space of results) + vmc/corpus.py (E9)",
        "exploration",
        "invariants evaluated on every result of the bounded-exhaustive generator spaces of C01-C05 and the harvested corpus",
        "Invariants I1-I7 (every path has a hop, consists of direct edges, starts at a column nothing feeds, ends at a column of a target/intermediate table; "
        "resolved source tables are read and connected at table level; every node retrievable by an equal object, equal nodes hash equally; a resolved column has "
        "exactly one owner edge from its parent; the flag views of get_column_lineage agree) are evaluated on every result: C01 table-profile cases (D<=2/3), C02 cases "
        "around 5 centres, C03 histories as scripts, C04 scripts with providers, C05 scripts, and 529 corpus items under their dialects. The flag variants of get_column_lineage are also called in the other order on a fresh runner.",
        "Trusted: the monitors themselves; the holder object reached through the runner. Known findings matched exactly from pins/C06.json.",
        "DESIGN.md section 5 C06",
    ),
    "C18": (
        "vmc/c18.py, vmc/monitored.py, vmc/monitors.py (E8) + vmc/corpus.py (E9)",
        "exploration",
        "invariants evaluated on every result of the bounded-exhaustive generator spaces of C01-C05 and the harvested corpus, both export levels, summary, web response",
        "Invariants X1-X5 (unique ids; every edge endpoint and parent is an exported node; table export = table graph and covers the summary's tables; column export = "
        "column graph with each column under its owner; the text summary lists exactly the accessor lists, sorted, unique, repeatable - also when other accessors were "
        "called first) on the same space of results as C06; W1: the /lineage response of the web application equals the runner's own exports and verbose summary.",
        "Trusted: the monitors; export normal form (node set, edge multiset; list order and synthetic edge ids are presentation). Known findings matched exactly from pins/C18.json.",
        "DESIGN.md section 5 C18",
    ),
    "C07": (
        "vmc/c07.py (E1 with rewrite sites as choice points over corpus + generator seeds)",
        "exploration",
        "exhaustive enumeration of single-site token-level rewrites (and per-kind all-sites, thorough: site pairs) of corpus and generator seeds; differential oracle",
        "For every seed (corpus single statements, TPC-DS queries, generator cases around 4 centres; the ansi ones also under the sqlparse-based analyzer with the blank re-layouts and "
        "keyword case) and every rewrite kind (whitespace -> newline+tab / single newline / single tab, blank inserted, "
        "block comment, line comment - both containing ';' -, keyword upper-cased, identifier upper-cased, lower-case identifier quoted, ';;' appended) every eligible site "
        "is rewritten singly and all sites of a kind at once (thorough: all pairs of sites for the 50 shortest seeds); tables and named-column pairs must equal the "
        "original's. Eligibility is decided by sqlfluff (parses without violation, same significant token sequence). Fourth round: a block comment spanning a line break as a further rewrite kind (also under the sqlparse-based analyzer), parenthesised set-operation seeds.",
        "Trusted: sqlfluff's lexer / parser as the judge of eligibility; placeholder for display names of un-aliased expression columns. Known findings matched "
        "exactly from pins/C07.json.",
        "DESIGN.md section 5 C07",
    ),
    "C10": (
        "vmc/c10.py (E5 edit / fault injection)",
        "fault_enumeration",
        "exhaustive enumeration of single token edits of seed statements, corpus x dialect cross product, bracket nesting, unsupported-statement insertion positions; every accessor called, also after a failure",
        "(a) every single edit (delete, duplicate, swap-adjacent, insert / replace by a letter of the alphabet) at every token of 22 short (quick) / 63 (thorough, incl. long) seeds "
        "covering every extractor family and dialect-specific handler, under the seed's dialect and the sqlparse analyzer (+ ansi, + pairs of metacharacter edits in thorough); "
        "(b) every corpus statement under 5 analyzers + its own (quick) / all 29 (thorough); (c) bracket nesting up to 30 at 4 positions; (d) every text of a menu of ~55 look-alikes of the supported statement kinds (names colliding with the script's tables) x dialect that the library itself "
        "declares unsupported, at every position of 1-3 supported statements, silent on/off, and texts with no statement at all. Outcome must be a result or a "
        "SQLLineageException subclass for every accessor, also on a second access after a failure; unparsable text must be InvalidSyntaxException; silent mode = "
        "warning + result of the script without the statement. (e) every jinja expression atom x operator x atom in three template positions (the templater evaluates them).",
        "Trusted: sqlfluff as the judge of 'cannot parse'. A neighbourhood of valid SQL, not all strings. Known findings matched by call-site signature "
        "(analyzer, exception class, innermost sqllineage frame) from known_findings.json.",
        "DESIGN.md section 5 C10",
    ),
    "C11": (
        "vmc/c11.py + vmc/hashctl.py (E4 controlled hashing)",
        "model_checking",
        "exhaustive enumeration of hash assignments of the library's model objects (all permutations for <= 6 names, ordered pairs / triples at the front beyond), accessor-order "
        "permutations, repetitions; real PYTHONHASHSEED subprocesses validated against the explored outcome set",
        "The __hash__ of Schema, Table, Path, SubQuery, Column is replaced by a table the harness controls; for each of 34 scripts (quick; + the whole corpus in thorough) chosen so "
        "that every set-typed site is reached with >= 2 elements, every assignment in the stated bound is executed on the real analysis and the full public observation (summary, "
        "column paths, both exports in normal form) must be the same; all 24 orders of the four accessors with each called twice on one runner (for scripts that raise: each call must raise what a fresh runner raises); every ordered pair / triple "
        "of the flag variants of get_column_lineage and the column-level export on one runner vs. a fresh runner per variant; three repetitions in one process "
        "and on one reused provider. States = hash assignments executed; traces validated = real subprocess runs with different PYTHONHASHSEED that must lie in the outcome set.",
        "Trusted: ascending-hash iteration of CPython sets for small distinct hashes (self-tested in setup); str-keyed sets inside third-party code are only sampled by the real-seed "
        "runs. Known hash-order dependent findings matched exactly (script, outcome set) from pins/C11.json.",
        "DESIGN.md section 5 C11",
    ),
    "C12": (
        "vmc/c12.py (E2 histories with a generic global-state fingerprint, E5 crash points, E3 schedules via vmc/sched.py)",
        "model_checking",
        "explicit-state search over run histories with the process-global state fingerprint as canonical state; exhaustive crash-point enumeration; preemption-bounded schedule exploration of two concurrent analyses",
        "(a) 198 letters = script (11: creates / reads / fails after creating / nested CASE-subquery runner / redefines a known table ...) x provider kind (shared default instance, one "
        "shared non-empty provider, fresh) x analyzer (ansi, tsql without semicolons, non-validating) x config scope; after every event the fingerprint of everything reachable from the "
        "sqllineage modules must equal the initial one, the reused provider must answer as a fresh one, and the observation must equal that of a fresh interpreter; every depth-2 history "
        "ending in a probe run on the same provider (thorough: depth 3 on the shared provider). (b) a failing statement of both kinds at every position of 1-4 statement scripts and a provider "
        "raising on every j-th lookup, followed by probe runs on that provider. (c) 2 threads with their own providers and scopes, every schedule with <= 1 (fine grain: every function entry "
        "of runner / provider / config, every line of session handling) and <= 2 (coarse grain) preemptions; each thread must observe its solo result and leave its provider clean.",
        "Trusted: completeness of the fingerprint for the inductive reading of (a) (the depth-2 histories and parts b, c do not rely on it); GIL atomicity below line granularity; no "
        "preemption inside third-party code.",
        "DESIGN.md section 5 C12",
    ),
}

NOT_YET = "check not built yet in this revision (planned in DESIGN.md section 5/11); not claimed"


def main():
    props = [json.loads(l)["id"] for l in open(os.path.join(HERE, "properties.jsonl"))]
    checks = []
    for pid in props:
        if pid not in CHECKS:
            continue
        engine, cat, tech, text, note, ref = CHECKS[pid]
        checks.append(
            {
                "property_id": pid,
                "quick_cmd": f"./check {pid} --tier quick",
                "thorough_cmd": f"./check {pid} --tier thorough",
                "evidence_file": f"/verif/evidence/{pid}.json",
                "replay_cmd_template": f"./check {pid} --replay {{path}}",
                "engine": engine,
                "level_claimed": {"category": cat, "text": text, "design_ref": ref},
                "level_note": note,
                "technique": tech,
            }
        )
    manifest = {
        "version": 1,
        "setup_cmd": "./check --selftest",
        "hooks": {
            "guard": "SQLLINEAGE_VERIF",
            "enable": "no source hooks exist: checks import /repo's working tree through PYTHONPATH=/repo and observe it with "
            "sys.monitoring, the get_ident seam, __hash__ patching and module attributes; the guard variable is exported by "
            "./check for uniformity and read by nothing in /repo",
            "baseline_off_cmd": "cd /repo && /venv/bin/python -m pytest -ra -q -p no:cacheprovider --timeout=900 --continue-on-collection-errors",
            "source_commits": [],
            "add_only": True,
        },
        "engines": [
            {"name": "common", "path": "vmc/common.py", "serves_properties": props, "kind_free_text": "pinned environment, worker pool, evidence/replay writer, known-findings registry"},
        ],
        "checks": checks,
        "not_applicable": [{"property_id": p, "reason": NOT_YET} for p in props if p not in CHECKS],
        "notes": "All checks are bounded-exhaustive explorations of the real code (model-checking family); see DESIGN.md. "
        "Known findings: known_findings.json (+ pins/). Repairs of genuine defects are 'fix:' commits in /repo.",
    }
    path = os.path.join(HERE, "MANIFEST.json")
    with open(path, "w") as f:
        json.dump(manifest, f, indent=1)
        f.write("\n")
    try:
        r = subprocess.run(
            ["python3-vt", "-c", "import json,jsonschema,sys; jsonschema.validate(json.load(open(sys.argv[1])), json.load(open('/root/.vp/MANIFEST.schema.json'))); print('MANIFEST valid')", path],
            capture_output=True, text=True,
        )
        print(r.stdout.strip() or r.stderr.strip()[-500:])
    except FileNotFoundError:
        print("python3-vt not found; not validated")


if __name__ == "__main__":
    main()
