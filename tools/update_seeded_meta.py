#!/venv/bin/python
"""fold the output of tools/mutant_matrix.sh into seeded/<name>/meta.json (detected_by / not_detected_by / ran)"""
import json, os, sys
src = sys.argv[1] if len(sys.argv) > 1 else "/tmp/mutant_matrix.txt"
res = {}
for line in open(src):
    p = line.split()
    if len(p) == 3:
        res.setdefault(p[0], []).append((p[1], int(p[2])))
for name, runs in sorted(res.items()):
    mp = f"/verif/seeded/{name}/meta.json"
    if not os.path.exists(mp):
        continue
    m = json.load(open(mp))
    m["detected_by"] = sorted({c for c, rc in runs if rc == 1})
    m["not_detected_by"] = sorted({c for c, rc in runs if rc == 0})
    m["ran"] = [f"tools/try_mutant.sh seeded/{name}/patch.diff {c} quick -> exit {rc}" for c, rc in runs]
    json.dump(m, open(mp, "w"), indent=1)
    print(name, m["detected_by"], m["not_detected_by"], [c for c, rc in runs if rc == 2])
